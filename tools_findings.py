#!/usr/bin/env python3
"""Maintenance helper (never used at check run time): append an entry to known_findings.json.
usage: tools_findings.py <property> <key> <known|fixed> <commit-or-'-'> <what> [witness]"""
import json, sys
p = "/verif/known_findings.json"
d = json.load(open(p))
prop, key, status, commit, what = sys.argv[1:6]
e = {"property": prop, "key": key, "status": status}
if status == "fixed":
    e["commit"] = commit
    what = "fixed: property=%s %s %s" % (prop, commit, what)
e["what"] = what
if len(sys.argv) > 6:
    e["witness"] = sys.argv[6]
d["findings"].append(e)
json.dump(d, open(p, "w"), indent=1, ensure_ascii=False)
print("added", key)
