# -*- coding: utf-8 -*-
"""
CLI:  /venv/bin/python -m vf.run C07 [--tier quick|thorough] [--seed N]
                                  [--shards K] [--replay FILE]

The parent process spawns K shard workers (``subprocess.run(timeout=...)``, never
multiprocessing.Pool), merges what their monitors observed, classifies
violations against known_findings.json and writes evidence/<id>.json.
A shard that dies or times out makes the run INCONCLUSIVE (exit 2).
"""
import argparse
import importlib
import json
import os
import subprocess
import sys
import tempfile
import time
from concurrent.futures import ThreadPoolExecutor

from . import REPO, VERIF
from .core import Ctx, finish, unjson

TIERS = {
    # tier: (default shards, scale, per-shard timeout seconds)
    "quick": (8, 1.0, 600),
    "thorough": (16, 12.0, 5400),
}


def _load(prop):
    return importlib.import_module("vf.checks.%s" % prop.lower())


def run_shard(prop, tier, seed, shard, nshards, scale, out):
    mod = _load(prop)
    ctx = Ctx(prop, tier, seed, shard, nshards, scale)
    import py_gql

    ctx.extra["py_gql_file"] = [py_gql.__file__]
    try:
        # a library defect that grows memory without bound should surface as MemoryError inside the
        # check (a violation with a witness), not as a shard killed by the kernel
        import resource

        resource.setrlimit(resource.RLIMIT_AS, (8 << 30, 8 << 30))
    except Exception:
        pass
    try:
        mod.run(ctx)
    except Exception:
        import traceback

        ctx.mark_inconclusive("harness crashed: " + traceback.format_exc()[-1500:])
    with open(out, "w") as f:
        json.dump(ctx.dump(), f)
    return 0


def main(argv=None):
    ap = argparse.ArgumentParser()
    ap.add_argument("prop")
    ap.add_argument("--tier", default=os.environ.get("VERIF_TIER", "quick"), choices=list(TIERS))
    ap.add_argument("--seed", type=int, default=int(os.environ.get("VERIF_SEED", "0")))
    ap.add_argument("--shards", type=int, default=None)
    ap.add_argument("--scale", type=float, default=None)
    ap.add_argument("--shard", type=int, default=None, help="internal: run one shard")
    ap.add_argument("--out", default=None)
    ap.add_argument("--replay", default=None)
    ap.add_argument("--no-write", action="store_true")
    args = ap.parse_args(argv)
    prop = args.prop.upper()
    dshards, dscale, timeout = TIERS[args.tier]
    nshards = args.shards or int(os.environ.get("VERIF_SHARDS", dshards))
    mod = _load(prop)
    # a check may cap the thorough scale (schedule exploration grows much faster than linearly)
    if args.tier == "thorough":
        dscale = getattr(mod, "THOROUGH_SCALE", dscale)
    scale = args.scale if args.scale is not None else dscale

    if args.replay:
        with open(args.replay) as f:
            doc = unjson(json.load(f))
        ctx = Ctx(prop, args.tier, args.seed)
        if not hasattr(mod, "replay"):
            print("replay not supported for %s" % prop)
            return 2
        for w in doc["witnesses"]:
            mod.replay(ctx, doc["key"], w["witness"])
        if ctx.violations:
            for k in ctx.violations:
                print("VIOLATION property=%s replay=%s (reproduced key=%s)" % (prop, args.replay, k))
            return 1
        print("replay did not reproduce a violation")
        return 0

    if args.shard is not None:
        return run_shard(prop, args.tier, args.seed, args.shard, nshards, scale, args.out)

    nshards = getattr(mod, "SHARDS", {}).get(args.tier, nshards)
    timeout = getattr(mod, "TIMEOUT", {}).get(args.tier, timeout)
    t0 = time.time()
    tmpdir = tempfile.mkdtemp(prefix="vf-%s-" % prop)
    env = dict(os.environ)
    env.setdefault("PYTHONHASHSEED", "0")
    env["PYTHONDONTWRITEBYTECODE"] = "1"
    env["PYTHONPATH"] = VERIF + os.pathsep + env.get("PYTHONPATH", "")

    def work(i):
        out = os.path.join(tmpdir, "shard-%d.json" % i)
        cmd = [
            sys.executable, "-m", "vf.run", prop, "--tier", args.tier, "--seed", str(args.seed),
            "--shards", str(nshards), "--scale", str(scale), "--shard", str(i), "--out", out,
        ]
        try:
            p = subprocess.run(cmd, cwd=VERIF, env=env, timeout=timeout,
                               stdout=subprocess.PIPE, stderr=subprocess.STDOUT)
        except subprocess.TimeoutExpired:
            return i, None, "shard %d timed out after %ds (watchdog => inconclusive)" % (i, timeout)
        if p.returncode != 0 or not os.path.exists(out):
            return i, None, "shard %d died rc=%s: %s" % (i, p.returncode, p.stdout.decode("utf-8", "replace")[-1500:])
        with open(out) as f:
            return i, json.load(f), None

    master = Ctx(prop, args.tier, args.seed, 0, nshards, scale)
    master.t0 = t0
    with ThreadPoolExecutor(max_workers=min(nshards, os.cpu_count() or 4)) as ex:
        for i, data, err in ex.map(work, range(nshards)):
            if err:
                master.mark_inconclusive(err)
            else:
                master.absorb(data)
    try:
        import shutil

        shutil.rmtree(tmpdir, ignore_errors=True)
    except Exception:
        pass
    master.extra["repo"] = REPO
    if hasattr(mod, "finalize"):
        mod.finalize(master)
    return finish(master, mod.RULE, getattr(mod, "ASSUMPTIONS", ()), write=not args.no_write)


if __name__ == "__main__":
    sys.exit(main())
