# -*- coding: utf-8 -*-
"""
Runtime-monitoring framework for py-gql (see /verif/DESIGN.md).

Importing this package puts ``$VERIF_REPO/src`` (default ``/repo/src``) first on
``sys.path`` so that every check observes the *current working tree* of the
library, and disables byte-code caching so no stale ``.pyc`` is ever used.
"""
import os
import sys

sys.dont_write_bytecode = True

REPO = os.environ.get("VERIF_REPO", "/repo")
_SRC = os.path.join(REPO, "src")
if _SRC not in sys.path:
    sys.path.insert(0, _SRC)

VERIF = os.path.dirname(os.path.dirname(os.path.abspath(__file__)))
