# -*- coding: utf-8 -*-
"""C06 Validation verdicts match the specification and ignore irrelevant order."""
from ..gen import opgen, rulebreak, schemair as S
from ..mon import exec_mon

THOROUGH_SCALE = 8.0   # 16 shards; see DESIGN.md section 7

RULE = (
    "valid-by-construction documents (G-OP) over generated schemas must validate; for each, labelled "
    "single-rule violations (27 operators covering the 26 specified rules, applied at a random "
    "position) must be reported invalid with at least one error from the labelled rule class "
    "(errors are read per rule class by running the same TypeInfoVisitor / rule classes / "
    "ChainedVisitor as default_validator); every valid or broken document is re-validated in up to 5 "
    "transformed copies (definitions, selections and arguments permuted; aliases, fragments and "
    "variables renamed injectively; whitespace, commas and comments re-spelled): verdict and "
    "attribution must not change. Non-trivial = distinct (base, variant) pair whose variant text "
    "differs from the base text."
)
ASSUMPTIONS = [
    "documents produced by G-OP satisfy all June-2018 validation rules by construction (type-directed generation, response keys derived from field + arguments)",
    "extra errors from other rules on already invalid documents are not violations",
]


def per_rule_errors(schema, document):
    from py_gql.lang.visitor import ChainedVisitor
    from py_gql.validation.validate import SPECIFIED_RULES
    from py_gql.validation.visitors import TypeInfoVisitor

    type_info = TypeInfoVisitor(schema)
    visitors = [cls(schema, type_info) for cls in SPECIFIED_RULES]
    ChainedVisitor(type_info, *visitors).visit(document)
    return dict((type(v).__name__, list(v.errors)) for v in visitors)


def validate_text(ctx, schema, text, witness):
    """Returns (valid?, {rule: n errors}) or None when it could not be decided."""
    from py_gql.exc import GraphQLSyntaxError
    from py_gql.lang import parse
    from py_gql.validation import validate_ast

    try:
        doc = parse(text, allow_type_system=True)
    except GraphQLSyntaxError as e:
        ctx.mark_inconclusive("harness rendered an unparsable document: %r" % text[:200])
        return None
    try:
        res = validate_ast(schema, doc)
    except Exception as e:
        ctx.violation("validate-raises:%s" % type(e).__name__, witness, repr(e)[:300])
        return None
    # the verdict is a function of the document, not of how it was parsed: a tree without source positions
    # (no_location=True) gets the same verdict
    try:
        res_noloc = validate_ast(schema, parse(text, allow_type_system=True, no_location=True))
        ctx.count("validated_without_locations")
        if bool(res_noloc.errors) != bool(res.errors):
            ctx.violation("verdict-changes-without-source-positions", witness,
                          "with positions: %r; without: %r" % ([str(e) for e in res.errors][:2], [str(e) for e in res_noloc.errors][:2]))
            return None
    except Exception as e:
        ctx.violation("validate-raises:%s:no_location" % type(e).__name__, witness, repr(e)[:300])
        return None
    if not res.errors:
        return True, {}, []
    try:
        by_rule = per_rule_errors(schema, parse(text, allow_type_system=True))
    except Exception as e:
        ctx.violation("validate-raises:%s" % type(e).__name__, witness, repr(e)[:300])
        return None
    counts = dict((k, len(v)) for k, v in by_rule.items() if v)
    if not counts:
        ctx.mark_inconclusive("per-rule harness disagrees with validate_ast on %r" % text[:200])
        return None
    return False, counts, [str(e) for e in res.errors][:3]


def check_family(ctx, rng, case, doc, label, base_cls):
    """Validate a document and its transformed copies; label None = must be valid."""
    base_text = rulebreak.render(doc)
    labels = (label,) if isinstance(label, str) else (label or ())
    variants = [("base", base_text, [])]
    for _ in range(rng.randint(1, 4)):
        d2, kinds, order = rulebreak.transform(rng, doc)
        t2 = rulebreak.render(d2, order)
        if rng.random() < 0.6:
            t2 = rulebreak.retrivia(rng, t2)
            kinds = kinds + ["trivia"]
        variants.append(("variant", t2, kinds))
    base_verdict = None
    for kind, text, kinds in variants:
        witness = {"schema_sdl": case.sdl, "document": text, "base_document": base_text, "label": labels,
                   "transforms": kinds, "class": base_cls}
        out = validate_text(ctx, case.schema, text, witness)
        ctx.evaluated()
        ctx.count("documents_validated")
        if kind == "variant":
            for k in kinds:
                ctx.count("transform:" + k)
            if text != base_text:
                ctx.mark_nontrivial([case.sdl, base_text, text])
        if out is None:
            return
        valid, counts, msgs = out
        if not labels:
            ctx.count("valid_checked")
            if not valid:
                rule = sorted(counts)[0]
                ctx.violation("valid-document-rejected:%s" % rule, witness, "errors=%r" % (msgs,))
                return
        else:
            ctx.count("broken_checked:" + labels[0])
            if valid:
                ctx.violation("invalid-document-accepted:%s" % labels[0], witness, "no error reported")
                return
            if not any(counts.get(l) for l in labels):
                ctx.violation("not-attributed:%s" % labels[0], witness, "rules that fired: %r %r" % (sorted(counts), msgs))
                return
            ctx.count("attributed:" + labels[0])
        if kind == "base":
            base_verdict = valid
        elif valid != base_verdict:
            ctx.violation("verdict-changes-under:%s" % "+".join(kinds), witness, "base valid=%r variant valid=%r" % (base_verdict, valid))
            return
    if ctx.counters["samples:" + (labels[0] if labels else "valid")] < 1:
        ctx.counters["samples:" + (labels[0] if labels else "valid")] += 1
        ctx.sample(labels[0] if labels else "valid", {"document": base_text[:400], "variant": variants[-1][1][:300],
                                                       "transforms": variants[-1][2]})


def run(ctx):
    rng = ctx.rng("cases")
    for ci in range(ctx.n(4)):
        case = exec_mon.Case(rng, "c06:%d:%d:%d" % (ctx.seed, ctx.shard, ci),
                             schema_kw={"features": {"subscription": ci % 2 == 0}})
        case.sdl = S.to_sdl(case.ir)[0]
        try:
            case.schema.validate()
        except Exception as e:
            ctx.violation("generated-schema-rejected:%s" % type(e).__name__, {"schema_sdl": case.sdl}, str(e)[:300])
            continue
        for ri in range(5):
            g = opgen.OpGen(rng, case.ir, max_depth=rng.choice([2, 2, 3]))
            doc = g.document()
            check_family(ctx, rng, case, doc, None, "valid")
            ops = list(rulebreak.OPERATORS)
            rng.shuffle(ops)
            # operators that found few applicable documents so far in this shard get their turn first, and
            # an operator that does not apply does not use up one of the 14 slots
            ops.sort(key=lambda f: ctx.counters["operator:" + f.__name__] >= 6)
            applied = 0
            for op_fn in ops:
                if applied >= 14:
                    break
                broken = rulebreak.apply_operator(rng, doc, case.ir, op_fn)
                if broken is None:
                    ctx.count("operator_not_applicable")
                    continue
                applied += 1
                ctx.count("operator:" + op_fn.__name__)
                check_family(ctx, rng, case, broken, op_fn.label, op_fn.__name__)
    ctx.require("valid_checked", 50)
    ctx.require("documents_validated", 500)
