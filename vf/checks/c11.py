# -*- coding: utf-8 -*-
"""C11 Schemas built from SDL contain exactly what the SDL declares."""
import copy
import random

from ..gen import schemair as S
from ..ref import canon

RULE = (
    "schema IRs (all six type kinds, wrappers, defaults of every input kind, descriptions, "
    "deprecations, custom directives, non-default root names, self- and mutually recursive input and "
    "object types, types reachable only as interface implementers or union members) are rendered to "
    "SDL with members / interfaces / union members / root operations randomly split over `extend` "
    "blocks and definitions shuffled (up to 6 renderings per IR), built with build_schema "
    "(ignore_extensions on/off, additional_types supplied or not) and compared with the canonical "
    "description of the IR (types, members in document order, wrappers, defaults coerced by R-COERCE, "
    "descriptions, deprecations, directives, roots); the closure invariant is asserted on the result; "
    "a second document (a new type, an extension of that new type and an extension of the query root, "
    "in any order) is applied with extend_schema and compared likewise; "
    "35 labelled invalid documents must be rejected with SDLError / ExtensionError / SchemaError / "
    "SchemaValidationError / GraphQLSyntaxError and nothing else. "
    "The schema that was extended by the second document must be unchanged afterwards and "
    "extendable again with the same result.  "
    "Non-trivial = distinct document "
    "with >= 1 extension, recursion, default or description, or a labelled invalid one."
)
ASSUMPTIONS = ["expected defaults are the R-COERCE value of the declared literal under SDL semantics (enum names, transparent scalars)"]


def allowed_exceptions():
    from py_gql import exc

    return (exc.SDLError, exc.SchemaError, exc.GraphQLSyntaxError)


# -- labelled invalid documents ---------------------------------------------------------------


def first(ir, kind, pred=lambda t: True):
    for t in ir.types.values():
        if t.kind == kind and pred(t):
            return t
    return None


def invalid_documents(rng, ir, base_text):
    """[(label, text)] each breaking one type-system rule."""
    out = []
    obj = first(ir, "object", lambda t: t.name != ir.query)
    q = ir.types[ir.query]
    enum = first(ir, "enum")
    union = first(ir, "union")
    iface = first(ir, "interface")
    inp = first(ir, "input")
    scalar_names = [t.name for t in ir.types.values() if t.kind == "scalar"]

    def add(label, extra="", replace=None):
        text = base_text
        if replace:
            a, b = replace
            if a not in text:
                return
            text = text.replace(a, b, 1)
        out.append((label, text + "\n" + extra + "\n"))

    add("duplicate-type", S.type_sdl(q))
    add("duplicate-type-different-kind", "scalar %s" % q.name)
    f0 = q.fields[0]
    add("duplicate-field", "type ZzDupField { a: Int a: Int }\nextend type %s { zzDupField: ZzDupField }" % q.name)
    add("duplicate-argument", "extend type %s { zzDupArg(a: Int, a: Int): Int }" % q.name)
    add("duplicate-enum-value", "enum ZzDupEnum { A A }\nextend type %s { zzE: ZzDupEnum }" % q.name)
    add("duplicate-input-field", "input ZzDupInput { a: Int a: Int }\nextend type %s { zzI(x: ZzDupInput): Int }" % q.name)
    if obj is not None:
        add("duplicate-union-member", "union ZzU = %s | %s\nextend type %s { zzU: ZzU }" % (obj.name, obj.name, q.name))
        add("duplicate-interface", "interface ZzI { zzi: Int }\ntype ZzTwice implements ZzI & ZzI { zzi: Int }\nextend type %s { zzT: ZzTwice }" % q.name)
    add("duplicate-directive", "directive @zzdir on FIELD\ndirective @zzdir on FIELD")
    add("two-schema-definitions", S.schema_def_sdl(ir) + "\n" + S.schema_def_sdl(ir))
    # an operation the base does not define, introduced twice by schema extensions only
    for opname, present in (("mutation", ir.mutation), ("subscription", ir.subscription)):
        if not present and "schema {" in base_text:
            two = "type ZzOpA { a: Int }\ntype ZzOpB { b: Int }\n"
            if rng.random() < 0.5:
                add("extend-schema-operation-twice", two + "extend schema { %s: ZzOpA }\nextend schema { %s: ZzOpB }" % (opname, opname))
            else:
                add("extend-schema-operation-twice", two + "extend schema { %s: ZzOpA %s: ZzOpB }" % (opname, opname))
            break
    if "schema {" not in base_text:
        add("duplicate-operation-type", "schema { query: %s query: %s }" % (q.name, q.name))
    add("unknown-field-type", "extend type %s { zzUnknown: NoSuchType }" % q.name)
    add("unknown-argument-type", "extend type %s { zzUnknownArg(a: NoSuchInput): Int }" % q.name)
    add("unknown-interface", "type ZzImpl implements NoSuchInterface { a: Int }\nextend type %s { zzImpl: ZzImpl }" % q.name)
    add("unknown-union-member", "union ZzU2 = NoSuchMember\nextend type %s { zzU2: ZzU2 }" % q.name)
    if enum is not None:
        add("extension-of-wrong-kind", "extend type %s { a: Int }" % enum.name)
        add("duplicate-enum-value-through-extension", "extend enum %s { %s }" % (enum.name, enum.values[0].name))
        add("enum-as-union-member", "union ZzU3 = %s\nextend type %s { zzU3: ZzU3 }" % (enum.name, q.name))
    if obj is not None:
        add("extension-of-wrong-kind-2", "extend enum %s { ZZ }" % obj.name)
    add("duplicate-field-through-extension", "extend type %s { %s: Int }" % (q.name, f0.name))
    if obj is not None and obj.interfaces:
        add("interface-implemented-twice-through-extension", "extend type %s implements %s" % (obj.name, obj.interfaces[0]))
    if union is not None:
        add("duplicate-union-member-through-extension", "extend union %s = %s" % (union.name, union.members[0]))
    if inp is not None:
        add("duplicate-input-field-through-extension", "extend input %s { %s: Int }" % (inp.name, inp.input_fields[0].name))
        add("input-type-in-output-position", "extend type %s { zzIn: %s }" % (q.name, inp.name))
    if obj is not None:
        add("output-type-in-input-position", "extend type %s { zzOut(a: %s): Int }" % (q.name, obj.name))
        add("object-as-input-field", "input ZzBadInput { a: %s }\nextend type %s { zzBI(x: ZzBadInput): Int }" % (obj.name, q.name))
    # the same mistakes with a default value attached (the default must not be evaluated against a type that
    # cannot be an input type), and defaults that name fields the input type does not have
    if obj is not None:
        add("output-type-in-input-position-with-default", "extend type %s { zzOutD(a: %s = {}): Int }" % (q.name, obj.name))
    add("query-type-in-input-position-with-default", "extend type %s { zzOutQ(a: %s = {}): Int }" % (q.name, q.name))
    add("unknown-field-in-default-literal", "input ZzKnown { a: Int }\nextend type %s { zzUF(x: ZzKnown = {a: 1, zzz: 2}): Int }" % q.name)
    add("extension-of-undefined-type", "extend type ZzNowhereDefined { b: Int }")
    add("extension-of-specified-scalar-as-object", "extend type String { b: Int }")
    add("empty-object-type", "type ZzEmpty\nextend type %s { zzEmpty: ZzEmpty }" % q.name)
    add("empty-enum", "enum ZzEmptyEnum\nextend type %s { zzEE: ZzEmptyEnum }" % q.name)
    add("empty-union", "union ZzEmptyUnion\nextend type %s { zzEU: ZzEmptyUnion }" % q.name)
    add("empty-input", "input ZzEmptyInput\nextend type %s { zzEI(x: ZzEmptyInput): Int }" % q.name)
    add("interface-field-missing", "interface ZzI2 { need: Int }\ntype ZzNoImpl implements ZzI2 { other: Int }\nextend type %s { zzNI: ZzNoImpl }" % q.name)
    add("interface-field-wrong-type", "interface ZzI3 { need: Int }\ntype ZzWrong implements ZzI3 { need: String }\nextend type %s { zzW: ZzWrong }" % q.name)
    add("reserved-field-name", "extend type %s { __zz: Int }" % q.name)
    add("reserved-type-name", "type __Zz { a: Int }\nextend type %s { zzR: __Zz }" % q.name)
    add("reserved-enum-value", "enum ZzResEnum { true }\nextend type %s { zzRE: ZzResEnum }" % q.name)
    add("invalid-default-value", "extend type %s { zzDef(a: Int = \"nope\"): Int }" % q.name)
    if "schema {" in base_text and not ir.subscription:
        add("non-object-root", "", ("schema {", "schema { subscription: Int "))
    add("directive-unknown-argument-type", "directive @zzd(a: NoSuchType) on FIELD")
    add("syntax-error", "type {")
    return [x for x in out if x is not None]


def defaults_touch(ir, names):
    """Does any declared default (argument, input field, directive argument) contain a value of one
    of the named enum / input types (transitively through input object fields)?"""
    names = set(names)

    def touches(t, v, depth=0):
        if v is None or depth > 8:
            return False
        if t[0] == "nonnull":
            return touches(t[1], v, depth)
        if t[0] == "list":
            return any(touches(t[1], x, depth) for x in (v if isinstance(v, list) else [v]))
        st = ir.types.get(t[1])
        if st is None:
            return False
        if st.kind == "enum":
            return st.name in names
        if st.kind == "input":
            if st.name in names:
                return True
            if isinstance(v, dict):
                for f in st.input_fields:
                    if f.name in v and touches(f.type, v[f.name], depth + 1):
                        return True
                    if f.name not in v and f.has_default and touches(f.type, f.default, depth + 1):
                        return True
        return False

    for t in ir.types.values():
        for f in t.fields:
            for a in f.args:
                if a.has_default and touches(a.type, a.default):
                    return True
        for f in t.input_fields:
            if f.has_default and touches(f.type, f.default):
                return True
    for d in ir.directives.values():
        for a in d.args:
            if a.has_default and touches(a.type, a.default):
                return True
    return False


def default_nests_owner_type(ir):
    """Some input field's default contains a literal of the field's own input type, directly or through the
    defaults of the types whose literals it contains: building the field list of T coerces the defaults of T's
    fields, coercing a literal of X needs the field list of X, ... - a cycle in "a default of T contains a literal
    of X" cannot be built by the library (known finding)."""
    edges = {}

    def literals(t, v, acc):
        if v is None:
            return
        if t[0] == "nonnull":
            return literals(t[1], v, acc)
        if t[0] == "list":
            for x in (v if isinstance(v, list) else [v]):
                literals(t[1], x, acc)
            return
        st = ir.types.get(t[1])
        if st is None or st.kind != "input":
            return
        acc.add(st.name)
        if isinstance(v, dict):
            for f in st.input_fields:
                if f.name in v:
                    literals(f.type, v[f.name], acc)

    for t in ir.types.values():
        if t.kind == "input":
            acc = set()
            for f in t.input_fields:
                if f.has_default:
                    literals(f.type, f.default, acc)
            edges[t.name] = acc
    # any cycle?
    state = {}

    def visit(n):
        if state.get(n) == 1:
            return True
        if state.get(n) == 2:
            return False
        state[n] = 1
        for m in edges.get(n, ()):
            if visit(m):
                return True
        state[n] = 2
        return False

    return any(visit(n) for n in list(edges))


def strict_scalars(ir):
    import py_gql.schema as PS

    out = []
    for t in ir.types.values():
        if t.kind == "scalar" and t.strict:
            ser, par, lit = S.strict_scalar_fns(t.name)
            out.append(PS.ScalarType(t.name, ser, par, lit, description=t.description))
    return out


def gen_ir(rng, hostile):
    ir = S.generate(rng, hostile_descriptions=hostile, features={"variable_definition_location": True})
    # recursion shapes and implementer-only types
    r = rng.random()
    if r < 0.5:
        self_in = S.SType("input", "SelfInput", None)
        self_in.input_fields = [S.SInput("self", S.named("SelfInput")), S.SInput("many", S.lst(S.nn(S.named("SelfInput")))),
                                S.SInput("leaf", S.named("Int"), 3)]
        other = S.SType("input", "MutualInput", None)
        other.input_fields = [S.SInput("back", S.named("SelfInput")), S.SInput("again", S.named("MutualInput"))]
        self_in.input_fields.append(S.SInput("mutual", S.named("MutualInput")))
        ir.add(self_in)
        ir.add(other)
        ir.types[ir.query].fields.append(S.SField("withRecursiveInput", S.named("Int"), [S.SInput("arg", S.named("SelfInput"))]))
    ifaces = [t for t in ir.types.values() if t.kind == "interface"]
    if ifaces and rng.random() < 0.6:
        i = rng.choice(ifaces)
        only = S.SType("object", "OnlyImplements%s" % i.name, "reachable only as an implementer")
        only.interfaces = [i.name]
        only.fields = list(i.fields) + [S.SField("ownField", S.named("String"))]
        ir.add(only)
    unions = [t for t in ir.types.values() if t.kind == "union"]
    if unions and rng.random() < 0.6:
        u = rng.choice(unions)
        only = S.SType("object", "OnlyMemberOf%s" % u.name, None)
        only.fields = [S.SField("memberField", S.named("Int"))]
        ir.add(only)
        u.members.append(only.name)
    return ir


def run(ctx):
    import py_gql

    allowed = allowed_exceptions()
    rng = ctx.rng("cases")
    for ci in range(ctx.n(200)):
        hostile = ci % 4 == 3
        ir = gen_ir(rng, hostile)
        view = canon.sdl_view(ir)
        expected = canon.canon_ir(view)
        texts = []
        for k in range(6):
            if k == 0:
                texts.append(("plain", S.to_sdl(view)[0], {"extensions": 0, "split_types": []}))
            else:
                # half of the renderings keep enums and input objects in one piece
                kinds = None if k % 3 else ("object", "interface", "union")
                t, info = S.to_sdl(view, rng, split_extensions=True, shuffle=k % 2 == 0, split_kinds=kinds)
                texts.append(("split" + ("+shuffled" if k % 2 == 0 else ""), t, info))
        recursive = "SelfInput" in ir.types
        nests_owner = default_nests_owner_type(view)
        for cls, text, info in texts:
            with_additional = rng.random() < 0.3
            kwargs = {}
            exp = expected
            if with_additional:
                kwargs["additional_types"] = strict_scalars(ir)
                v2 = canon.sdl_view(ir)
                for t in v2.types.values():
                    if t.kind == "scalar":
                        t.strict = ir.types[t.name].strict
                exp = canon.canon_ir(v2)
            if with_additional and rng.random() < 0.6:
                # a type that only the caller supplies (it is not declared in the document), referred to from the
                # base definitions or from nothing but an extension block
                import py_gql.schema as PS

                where = rng.choice(["extension-only", "base", "both"])
                ser, par, lit = S.strict_scalar_fns("VfInjected")
                kwargs["additional_types"] = list(kwargs["additional_types"]) + [PS.ScalarType("VfInjected", ser, par, lit)]
                v2 = S.clone(v2)
                inj = S.SType("scalar", "VfInjected", None)
                inj.strict = True
                v2.add(inj)
                q2 = v2.types[v2.query]
                extra = ""
                if where in ("base", "both"):
                    holder = S.SType("object", "VfHolder", None)
                    holder.fields = [S.SField("held", S.named("VfInjected"))]
                    v2.add(holder)
                    q2.fields.append(S.SField("vfHolder", S.named("VfHolder")))
                    extra += "\ntype VfHolder {\n  held: VfInjected\n}\nextend type %s {\n  vfHolder: VfHolder\n}\n" % v2.query
                if where in ("extension-only", "both"):
                    q2.fields.append(S.SField("vfInjected", S.lst(S.named("VfInjected")), [S.SInput("x", S.named("VfInjected"))]))
                    extra += "\nextend type %s {\n  vfInjected(x: VfInjected): [VfInjected]\n}\n" % v2.query
                text = text + extra
                exp = canon.canon_ir(v2)
                ctx.count("injected_type_not_declared:" + where)
            witness = {"sdl": text, "class": cls, "additional_types": with_additional, "hostile_descriptions": hostile}
            ctx.evaluated()
            ctx.count("builds:" + cls)
            ctx.count("extension_blocks", info["extensions"])
            if info["extensions"] or recursive or "=" in text or '"' in text:
                ctx.mark_nontrivial(text)
            split_inputs = [n for n in info["split_types"] if ir.types[n].kind in ("enum", "input")]
            early_default = bool(split_inputs) and defaults_touch(view, split_inputs)
            try:
                schema = py_gql.build_schema(text, **kwargs)
            except RecursionError as e:
                if nests_owner:
                    ctx.violation("valid-document:default-nests-literal-of-its-own-input-type:RecursionError", witness, "")
                else:
                    ctx.violation("valid-document:raises:RecursionError", witness, "recursive=%r" % recursive)
                continue
            except Exception as e:
                if early_default and "Invalid default value" in str(e):
                    ctx.violation("valid-document:default-evaluated-before-extensions", witness, repr(e)[:300])
                else:
                    ctx.violation("valid-document:raises:%s" % type(e).__name__, witness, repr(e)[:300])
                continue
            got = canon.canon_schema(schema)
            d = canon.diff(got, exp)
            if d:
                if early_default and d[0].endswith("/<members>") and "/default/" in d[0]:
                    ctx.violation("valid-document:default-evaluated-before-extensions", witness, "at %s built=%s declared=%s" % d)
                else:
                    ctx.violation("content:%s%s" % (canon.diff_key(d), ":hostile-description" if hostile and "description" in d[0] else ""),
                                  witness, "at %s built=%s declared=%s" % d)
                continue
            problems, edges = canon.closure_problems(schema)
            ctx.count("closure_edges_checked", edges)
            for k, detail in problems[:1]:
                ctx.violation("closure:" + k, witness, detail)
            ctx.count("builds_equal_declared")
            # a second document extends the built schema: a new type, an extension of that new type and
            # an extension of the query root, in any order
            if rng.random() < 0.3 and not with_additional:
                v3 = S.clone(view)
                nt = S.SType("object", "VfAdded", None)
                nt.fields = [S.SField("added_leaf", S.named("Int")), S.SField("added_extra", S.named("String"))]
                v3.add(nt)
                v3.types[v3.query].fields.append(S.SField("vfAdded", S.named("VfAdded")))
                parts = ["type VfAdded {\n  added_leaf: Int\n}\n", "extend type VfAdded {\n  added_extra: String\n}\n",
                         "extend type %s {\n  vfAdded: VfAdded\n}\n" % v3.query]
                enums = [t for t in v3.types.values() if t.kind == "enum"]
                if enums:
                    e3 = rng.choice(enums)
                    e3.values.append(S.SEnumValue("VF_ADDED"))
                    parts.append("extend enum %s {\n  VF_ADDED\n}\n" % e3.name)
                rng.shuffle(parts)
                before = canon.canon_schema(schema)
                ext_text = "\n".join(parts)
                w3 = dict(witness, extension_document=ext_text)
                ctx.evaluated()
                ctx.count("second_document_extensions")
                try:
                    extended = py_gql.sdl.extend_schema(schema, ext_text)
                except Exception as e:
                    ctx.violation("second-document:raises:%s" % type(e).__name__, w3, repr(e)[:300])
                else:
                    d3 = canon.diff(canon.canon_schema(extended), canon.canon_ir(v3))
                    if d3:
                        ctx.violation("second-document:content:%s" % canon.diff_key(d3), w3, "at %s built=%s declared=%s" % d3)
                    # the schema that was extended is an input: it still is what the first document declared,
                    # and extending it once more gives the same result
                    d4 = canon.diff(canon.canon_schema(schema), before)
                    if d4:
                        ctx.violation("second-document:extended-schema-was-modified:%s" % canon.diff_key(d4), w3,
                                      "at %s now=%s before=%s" % d4)
                    else:
                        try:
                            again = py_gql.sdl.extend_schema(schema, ext_text)
                            if canon.diff(canon.canon_schema(again), canon.canon_schema(extended)):
                                ctx.violation("second-document:second-application-differs", w3, "")
                        except Exception as e:
                            ctx.violation("second-document:second-application-raises:%s" % type(e).__name__, w3, repr(e)[:300])
            # ignore_extensions: equals building the document without its extension blocks
            if info["extensions"] and rng.random() < 0.5 and not hostile and not early_default:
                blocks = [b for b in text.split("\n\n") if not b.lstrip().startswith("extend ")]
                base_only = "\n\n".join(blocks)
                outcomes = []
                for t2, kw in ((text, {"ignore_extensions": True}), (base_only, {})):
                    try:
                        outcomes.append(("ok", canon.canon_schema(py_gql.build_schema(t2, **kw))))
                    except allowed as e:
                        outcomes.append(("rejected", None))
                    except Exception as e:
                        outcomes.append(("raises", type(e).__name__))
                ctx.evaluated()
                ctx.count("ignore_extensions_pairs")
                if outcomes[0][0] != outcomes[1][0] or (outcomes[0][0] == "ok" and canon.diff(outcomes[0][1], outcomes[1][1])):
                    ctx.violation("ignore-extensions:differs-from-base-only-document", witness, repr([o[0] for o in outcomes]))
        ctx.sample("document", {"sdl": texts[-1][1][:500], "extensions": texts[-1][2]["extensions"]})
        # labelled invalid documents
        if not hostile and not nests_owner:
            for label, text in invalid_documents(rng, view, texts[0][1]):
                ctx.evaluated()
                ctx.count("invalid:" + label)
                ctx.mark_nontrivial(["invalid", label, text])
                witness = {"sdl": text, "label": label}
                try:
                    py_gql.build_schema(text)
                except allowed:
                    ctx.count("invalid_rejected")
                except Exception as e:
                    ctx.violation("invalid-document:unrelated-exception:%s:%s" % (type(e).__name__, label), witness, repr(e)[:300])
                else:
                    ctx.violation("invalid-document:accepted:%s" % label, witness, "")
    ctx.require("builds_equal_declared", 20)
    ctx.require("invalid_rejected", 50)
