# -*- coding: utf-8 -*-
"""C07 Resolvers only receive arguments that conform to the declared input types."""
import collections
import copy

from ..gen import opgen, schemair as S
from ..gen.schemair import UNSET, EnumLit
from ..mon import exec_mon
from ..ref import refcoerce
from ..ref.refcoerce import Var


class _AutoDict(collections.defaultdict):
    """A JSON object held in a dict subclass that defines __missing__ (defaultdict trees, Counter): an absent key
    is still absent."""


def autovivify(rng, v, top=True):
    """The same payload with (some of) its objects held in auto-vivifying defaultdicts."""
    if isinstance(v, dict):
        inner = dict((k, autovivify(rng, x, False)) for k, x in v.items())
        if not top and rng.random() < 0.7:
            d = _AutoDict(lambda: _AutoDict(int))
            d.update(inner)
            return d
        return inner
    if isinstance(v, list):
        return [autovivify(rng, x, False) for x in v]
    return v

RULE = (
    "for generated schemas, every root field (and custom directive) with arguments is called end to "
    "end through graphql_blocking with each argument independently omitted / given inline / given "
    "through a whole variable / given with a nested variable, with conforming values, explicit null "
    "and mutated (kind swapped, field removed or added, out-of-range, unknown enum name, non-finite "
    "numbers as floats / strings / integers beyond the double range) values; a spy "
    "resolver records the keyword arguments, which are compared with the coercion model R-COERCE "
    "(exact python values incl. enum internal values, python names, declared defaults, list wrapping) "
    "and checked for conformance; inputs the model rejects must not reach the resolver; each valid "
    "value is sent inline and through a variable and the two deliveries compared; the same cases go "
    "directly to coerce_value, value_from_ast, coerce_argument_values and coerce_variable_values. "
    ""
    "Whole operations against schemas whose interface implementations declare their own argument "
    "defaults / python names are executed too and the multiset of resolver invocations (type, "
    "field, keyword arguments) is compared with the reference executor's.  "
    "Non-trivial = distinct case whose type has a wrapper, enum or input object, or whose value is a "
    "boundary, null or mutated one."
)
ASSUMPTIONS = [
    "R-COERCE transcribes June-2018 input coercion (CoerceVariableValues, CoerceArgumentValues, input object / list / enum rules)",
    "values the built-in scalars deliberately accept beyond the specification (bool(x), str(x), int('3')) are classed lenient and never flagged",
]


def same(a, b):
    if type(a) != type(b):
        return False
    if isinstance(a, dict):
        return set(a) == set(b) and all(same(a[k], b[k]) for k in a)
    if isinstance(a, (list, tuple)):
        return len(a) == len(b) and all(same(x, y) for x, y in zip(a, b))
    return a == b


def mutate_value(rng, ir, t, v, depth=0):
    """A structurally different candidate derived from a valid value (the model classifies it)."""
    r = rng.random()
    alien = [None, 1, -1, 1.5, "abc", "", True, [], [1], {}, {"zz": 1}, EnumLit("NOT_A_VALUE"), 2147483648,
             -2147483649, "3", "2.5", 3.0, [None], [[1]], {"a": {"b": 1}}, EnumLit("true_"), 10 ** 20,
             float("inf"), float("-inf"), float("nan"), "Infinity", "-inf", "nan", "1e400", 10 ** 400,
             "50%", "%s", "%(x)s", "{0}"]
    if isinstance(v, dict) and v and r < 0.6:
        v = copy.deepcopy(v)
        op = rng.choice(["del", "add", "null", "inner", "inner"])
        k = rng.choice(list(v))
        if op == "del":
            del v[k]
        elif op == "add":
            v["unknown_field"] = rng.choice(alien)
        elif op == "null":
            v[k] = None
        else:
            st = ir.types.get(S.unwrap(t))
            f = [x for x in st.input_fields if x.name == k][0] if st is not None and st.kind == "input" else None
            v[k] = mutate_value(rng, ir, f.type, v[k], depth + 1) if f is not None else rng.choice(alien)
        return v
    if isinstance(v, list) and v and r < 0.6:
        v = list(v)
        i = rng.randrange(len(v))
        inner = S.nullable(t)
        inner = inner[1] if inner[0] == "list" else inner
        v[i] = mutate_value(rng, ir, inner, v[i], depth + 1) if rng.random() < 0.6 else rng.choice(alien)
        return v
    return rng.choice(alien)


def nontrivial_type(t, v):
    return t[0] != "named" or t[1] not in S.BUILTIN_SCALARS or v is None or isinstance(v, (list, dict))


class Spy(object):
    def __init__(self):
        self.calls = []

    def reset(self):
        self.calls = []


def build(ctx, rng, key):
    """Schema whose root type is served by explicit (spy-able) resolvers."""
    ir = S.generate(rng)
    world_served = {ir.query: "resolver"}
    case = exec_mon.Case.__new__(exec_mon.Case)
    from ..gen.world import Binding, World

    case.ir = ir
    case.world = World(ir, key, served=world_served, p_error=0.0, p_null_in_nonnull=0.0)
    case.binding = Binding(case.world)
    # record directive arguments from inside the resolver
    case.directive_args = []
    base_resolver_for = case.binding.resolver_for

    def resolver_for(typename, fieldname):
        fn = base_resolver_for(typename, fieldname)
        if fn is None:
            return None

        def spy(parent, context, info, **kwargs):
            for dname in case.watch_directives:
                try:
                    case.directive_args.append((dname, info.get_directive_arguments(dname)))
                except Exception as e:  # noqa
                    case.directive_args.append((dname, e))
            return fn(parent, context, info, **kwargs)

        return spy

    case.watch_directives = []
    case.schema, case.built = S.build_code_schema(ir, resolver_for=resolver_for,
                                                  type_resolver_for=case.binding.type_resolver_for)
    case.sg = S.SchemaGen(rng)
    case.sg.s = ir
    case.sdl = S.to_sdl(ir)[0]
    return case


MODES = ["omit", "inline", "inline", "inline-null", "inline-mutant", "var", "var", "var-null", "var-omit",
         "var-mutant", "nested-var"]


def plan_arguments(rng, case, arg_defs):
    """Chooses, per argument, how it is delivered. Returns (given {name: literal/Var}, var_defs,
    provided variables, description, nontrivial flag)."""
    ir, sg = case.ir, case.sg
    given = collections.OrderedDict()
    var_defs, provided, desc = [], {}, []
    nontrivial = False
    counter = [0]

    def new_var(t, default=UNSET):
        counter[0] += 1
        name = "x%d" % counter[0]
        var_defs.append((name, t, default))
        return name

    for a in arg_defs:
        mode = rng.choice(MODES)
        valid = sg.input_value_for(a.type)
        if mode == "omit":
            pass
        elif mode == "inline":
            given[a.name] = valid
        elif mode == "inline-null":
            given[a.name] = None
        elif mode == "inline-mutant":
            given[a.name] = mutate_value(rng, ir, a.type, valid)
        elif mode in ("var", "var-null", "var-omit", "var-mutant"):
            # variable type: same as the argument's, or nullable with a default where the location allows
            vt = a.type
            default = UNSET
            r = rng.random()
            if r < 0.25 and a.type[0] == "nonnull":
                # nullable variable with default into a non-null position (June-2018 rule)
                vt = a.type[1]
                default = sg.input_value_for(a.type)
            elif r < 0.4 and a.type[0] == "nonnull" and a.has_default:
                vt = a.type[1]   # location default allows a nullable variable
            elif r < 0.55:
                d = sg.input_value_for(a.type)
                if d is not None or a.type[0] != "nonnull":
                    default = d
            name = new_var(vt, default)
            given[a.name] = Var(name)
            if mode == "var":
                provided[name] = refcoerce.to_json_value(valid)
            elif mode == "var-null":
                provided[name] = None
            elif mode == "var-mutant":
                provided[name] = refcoerce.to_json_value(mutate_value(rng, ir, a.type, valid))
        else:  # nested-var
            st = ir.types.get(S.unwrap(a.type))
            if isinstance(valid, dict) and valid and st is not None and st.kind == "input":
                k = rng.choice(list(valid))
                f = [x for x in st.input_fields if x.name == k][0]
                name = new_var(f.type)
                inner = sg.input_value_for(f.type)
                provided[name] = refcoerce.to_json_value(inner)
                valid = collections.OrderedDict(valid)
                valid[k] = Var(name)
                given[a.name] = valid
            elif isinstance(valid, list) and valid and S.nullable(a.type)[0] == "list":
                it = S.nullable(a.type)[1]
                name = new_var(it)
                provided[name] = refcoerce.to_json_value(sg.input_value_for(it, allow_null=(it[0] != "nonnull")))
                valid = list(valid)
                valid[rng.randrange(len(valid))] = Var(name)
                given[a.name] = valid
            else:
                given[a.name] = valid
                mode = "inline"
        desc.append((a.name, S.type_str(a.type), mode))
        if mode != "inline" and mode != "omit" or nontrivial_type(a.type, given.get(a.name)):
            nontrivial = True
    return given, var_defs, provided, desc, nontrivial


def op_text(var_defs, body):
    head = ""
    if var_defs:
        head = "query Q(%s) " % ", ".join(
            "$%s: %s%s" % (n, S.type_str(t), "" if d is UNSET else " = " + opgen.value_text(d)) for n, t, d in var_defs)
    return head + "{ " + body + " }"


def sub_selection(ir, f):
    target = S.unwrap(f.type)
    return " { __typename }" if ir.kind(target) in ("object", "interface", "union") else ""


def end_to_end_field(ctx, rng, case, f):
    import py_gql

    ir = case.ir
    given, var_defs, provided, desc, nontrivial = plan_arguments(rng, case, f.args)
    text = op_text(var_defs, "k: %s%s%s" % (f.name, opgen.args_text(given), sub_selection(ir, f)))
    witness = {"schema_sdl": case.sdl, "document": text, "variables": provided, "field": f.name, "plan": desc}
    vstatus, coerced_vars = refcoerce.coerce_variables(ir, var_defs, provided)
    if vstatus == "ok":
        status, expected = refcoerce.coerce_arguments(ir, f.args, given, coerced_vars)
    else:
        status, expected = vstatus, None
    case.binding.calls = []
    case.watch_directives = []
    try:
        result = py_gql.graphql_blocking(case.schema, text, variables=(autovivify(rng, provided) if len(text) % 4 == 0 else provided), root=case.binding.root_value(ir.query))
    except Exception as e:
        ctx.violation("entry-point-raises:%s" % type(e).__name__, witness, repr(e)[:300])
        return
    ctx.evaluated()
    ctx.count("end_to_end:field")
    ctx.count("model:" + status)
    if nontrivial:
        ctx.mark_nontrivial([case.sdl, text, provided])
    calls = [c for c in case.binding.calls if c[1] == f.name and c[0] == ir.query]
    by_py = dict((a.pyname, a) for a in f.args)
    for c in calls:
        ctx.count("resolver_invocations_checked")
        for k, v in c[3].items():
            if k not in by_py:
                ctx.violation("kwargs:unknown-key", witness, "key %r" % k)
                continue
            why = refcoerce.conforms(ir, by_py[k].type, v)
            if why:
                ctx.violation("kwargs:non-conforming:" + why.split(" holds")[0].split(" is ")[0][:60], witness,
                              "%s=%r: %s" % (k, v, why))
    if status == "reject":
        if calls:
            ctx.violation("must-reject:reached-resolver", witness, "model: %s; kwargs=%r" % (expected, calls[0][3]))
        elif not result.errors:
            ctx.violation("must-reject:no-error-reported", witness, "model: %s" % (expected,))
        else:
            ctx.count("rejections")
            stage = "validation/variables" if not isinstance(result.data, dict) else "field"
            ctx.count("rejected_at:" + stage)
    elif status == "ok":
        if len(calls) != 1:
            ctx.violation("valid-input:resolver-not-invoked-once", witness,
                          "calls=%d errors=%r" % (len(calls), [str(e) for e in result.errors][:2]))
        elif not same(calls[0][3], expected):
            k = [k for k in set(calls[0][3]) | set(expected) if not same(calls[0][3].get(k, UNSET), expected.get(k, UNSET))]
            ctx.violation("kwargs:differ-from-model", witness, "keys %r library=%r model=%r" % (k, calls[0][3], expected))
        else:
            ctx.count("kwargs_equal_model")
            ctx.sample("field-call", {"document": text, "variables": provided, "kwargs": repr(expected)[:300]})
    else:
        ctx.abstain("lenient")


def end_to_end_routes(ctx, rng, case, f):
    """Same valid value inline and through a variable of the same type: identical kwargs."""
    import py_gql

    ir, sg = case.ir, case.sg
    if not f.args:
        return
    a = rng.choice(f.args)
    value = sg.input_value_for(a.type)
    others = collections.OrderedDict()
    for b in f.args:
        if b is not a and b.type[0] == "nonnull" and not b.has_default:
            others[b.name] = sg.input_value_for(b.type)
    seen = []
    texts = []
    for route in ("inline", "variable"):
        given = collections.OrderedDict(others)
        var_defs, provided = [], {}
        if route == "inline":
            given[a.name] = value
        else:
            var_defs = [("x", a.type, UNSET)]
            provided = {"x": refcoerce.to_json_value(value)}
            given[a.name] = Var("x")
        text = op_text(var_defs, "k: %s%s%s" % (f.name, opgen.args_text(given), sub_selection(ir, f)))
        texts.append((text, provided))
        case.binding.calls = []
        try:
            py_gql.graphql_blocking(case.schema, text, variables=(autovivify(rng, provided) if len(text) % 4 == 0 else provided), root=case.binding.root_value(ir.query))
        except Exception as e:
            ctx.violation("entry-point-raises:%s" % type(e).__name__, {"schema_sdl": case.sdl, "document": text}, repr(e)[:200])
            return
        calls = [c for c in case.binding.calls if c[1] == f.name]
        seen.append(calls[0][3] if len(calls) == 1 else ("calls", len(calls)))
    ctx.evaluated()
    ctx.count("route_pairs")
    if nontrivial_type(a.type, value):
        ctx.mark_nontrivial([case.sdl, texts])
    if not same(seen[0], seen[1]):
        ctx.violation("routes:inline-and-variable-differ", {"schema_sdl": case.sdl, "inline": texts[0], "variable": texts[1]},
                      "inline=%r variable=%r" % (seen[0], seen[1]))


def end_to_end_directive(ctx, rng, case, f, d):
    import py_gql

    ir = case.ir
    given, var_defs, provided, desc, nontrivial = plan_arguments(rng, case, d.args)
    # keep field arguments minimal and valid
    fargs = collections.OrderedDict()
    for b in f.args:
        if b.type[0] == "nonnull" and not b.has_default:
            fargs[b.name] = case.sg.input_value_for(b.type)
    text = op_text(var_defs, "k: %s%s @%s%s%s" % (f.name, opgen.args_text(fargs), d.name, opgen.args_text(given),
                                                  sub_selection(ir, f)))
    witness = {"schema_sdl": case.sdl, "document": text, "variables": provided, "directive": d.name, "plan": desc}
    vstatus, coerced_vars = refcoerce.coerce_variables(ir, var_defs, provided)
    if vstatus == "ok":
        status, expected = refcoerce.coerce_arguments(ir, d.args, given, coerced_vars)
    else:
        status, expected = vstatus, None
    case.binding.calls = []
    case.directive_args = []
    case.watch_directives = [d.name]
    try:
        result = py_gql.graphql_blocking(case.schema, text, variables=(autovivify(rng, provided) if len(text) % 4 == 0 else provided), root=case.binding.root_value(ir.query))
    except Exception as e:
        case.watch_directives = []
        ctx.violation("directive:entry-point-raises:%s" % type(e).__name__, witness, repr(e)[:300])
        return
    case.watch_directives = []
    ctx.evaluated()
    ctx.count("end_to_end:directive")
    if nontrivial:
        ctx.mark_nontrivial([case.sdl, text, provided])
    got = [x for x in case.directive_args if x[0] == d.name]
    by_py = dict((a.pyname, a) for a in d.args)
    # mechanism of a listed known finding: a nullable variable (allowed in a non-null position when it
    # or the argument has a default) explicitly set to null reaches a non-null *directive* argument
    null_var_args = set()
    for a in d.args:
        v = given.get(a.name)
        if a.type[0] == "nonnull" and isinstance(v, Var) and v.name in provided and provided[v.name] is None:
            null_var_args.add(a.pyname)
    for _n, val in got:
        if isinstance(val, dict):
            ctx.count("directive_arguments_checked")
            for k, v in val.items():
                why = refcoerce.conforms(ir, by_py[k].type, v) if k in by_py else "unknown key"
                if why and k in null_var_args and v is None:
                    ctx.violation("directive:null-variable-in-non-null-argument", witness, "%s=%r: %s" % (k, v, why))
                elif why:
                    ctx.violation("directive:kwargs:non-conforming:" + why.split(" holds")[0].split(" is ")[0][:60],
                                  witness, "%s=%r: %s" % (k, v, why))
    if status == "ok":
        if len(got) != 1 or not isinstance(got[0][1], dict):
            ctx.violation("directive:valid-input-not-delivered", witness, repr(got)[:200] + repr([str(e) for e in result.errors][:2]))
        elif not same(got[0][1], expected):
            ctx.violation("directive:kwargs-differ-from-model", witness, "library=%r model=%r" % (got[0][1], expected))
        else:
            ctx.count("directive_kwargs_equal_model")
    elif status == "reject":
        if got and isinstance(got[0][1], dict):
            if null_var_args and all(got[0][1].get(k) is None for k in null_var_args) and str(expected).startswith("argument"):
                ctx.violation("directive:null-variable-in-non-null-argument", witness, "model: %s; delivered %r" % (expected, got[0][1]))
            else:
                ctx.violation("directive:must-reject-delivered", witness, "model: %s; delivered %r" % (expected, got[0][1]))
        else:
            ctx.count("directive_rejections")


def direct_api(ctx, rng, case):
    """coerce_value / value_from_ast against the model for one random input type and value."""
    from py_gql.exc import CoercionError, InvalidValue
    from py_gql.lang.parser import parse_value
    from py_gql.utilities import coerce_value, value_from_ast

    ir, sg = case.ir, case.sg
    t = sg.input_type_expr()
    valid = sg.input_value_for(t)
    value = valid if rng.random() < 0.5 else mutate_value(rng, ir, t, valid)
    lib_type = lib_type_of(case, t)
    witness = {"schema_sdl": case.sdl, "type": S.type_str(t), "value": repr(value)}
    if nontrivial_type(t, value):
        ctx.mark_nontrivial([case.sdl, S.type_str(t), repr(value)])
    # JSON route
    jv = refcoerce.to_json_value(value)
    status, expected = refcoerce.coerce_json(ir, t, jv)
    ctx.evaluated()
    ctx.count("direct:coerce_value")
    try:
        got = ("ok", coerce_value(autovivify(rng, jv, False) if rng.random() < 0.25 else jv, lib_type))
    except (CoercionError, InvalidValue) as e:
        got = ("reject", e)
    except Exception as e:
        ctx.violation("coerce_value:raises-%s" % type(e).__name__, witness, repr(e)[:200])
        got = None
    if got is not None and status != "lenient":
        if got[0] != status:
            ctx.violation("coerce_value:%s-but-model-%s" % (got[0], status), witness, "library=%r model=%r" % (got[1], expected))
        elif status == "ok" and not same(got[1], expected):
            ctx.violation("coerce_value:value-differs", witness, "library=%r model=%r" % (got[1], expected))
    # literal route
    text = opgen.value_text(value)
    status, expected = refcoerce.coerce_literal(ir, t, value)
    ctx.evaluated()
    ctx.count("direct:value_from_ast")
    try:
        node = parse_value(text)
    except Exception as e:
        ctx.mark_inconclusive("literal does not parse: %r (%r)" % (text, e))
        return
    try:
        got = ("ok", value_from_ast(node, lib_type, {}))
    except (CoercionError, InvalidValue) as e:
        got = ("reject", e)
    except Exception as e:
        ctx.violation("value_from_ast:raises-%s" % type(e).__name__, dict(witness, literal=text), repr(e)[:200])
        got = None
    if got is not None and status != "lenient":
        if got[0] == "ok" and status == "reject" and "unknown input field" in str(expected):
            # value_from_ast documents that it assumes a validated document; unknown fields in
            # literals are rejected by the validation stage (checked end to end above)
            ctx.observe("value_from_ast-ignores-unknown-literal-field")
        elif got[0] != status:
            ctx.violation("value_from_ast:%s-but-model-%s" % (got[0], status), dict(witness, literal=text),
                          "library=%r model=%r" % (got[1], expected))
        elif status == "ok" and not same(got[1], expected):
            ctx.violation("value_from_ast:value-differs", dict(witness, literal=text), "library=%r model=%r" % (got[1], expected))


def delivered_under_abstract_types(ctx, rng, key):
    """Whole operations against schemas whose interface implementations declare their own argument
    defaults, python names and extra optional arguments: one field node is resolved once per concrete
    type, each time with the arguments that type's own definition yields. The multiset of resolver
    invocations (type, field, keyword arguments) is compared with the reference executor's."""
    from ..mon import exec_mon
    from ..ref import refexec

    case = exec_mon.Case(rng, key, world_kw={"p_error": 0.0, "p_null": 0.02, "p_null_in_nonnull": 0.0},
                         served=None)
    for t in case.ir.types.values():
        if t.kind == "object":
            case.world._served[t.name] = "resolver"
    case.binding = type(case.binding)(case.world)
    case.schema, case.built = S.build_code_schema(case.ir, resolver_for=case.binding.resolver_for,
                                                  type_resolver_for=case.binding.type_resolver_for)
    sdl = S.to_sdl(case.ir)[0]
    for _ in range(10):
        doc, text, op, variables = exec_mon.gen_request(rng, case)
        ref = refexec.reference_result(case.ir, doc, op, variables, case.world)
        if ref[0] != "ok":
            ctx.abstain("whole-operation:" + ref[0])
            continue
        try:
            exec_mon.run_blocking(case, text, op, variables, rng.choice(["blocking", "generic"]))
        except Exception as e:
            ctx.violation("whole-operation:raises:%s" % type(e).__name__, {"schema_sdl": sdl, "document": text,
                                                                           "variables": variables}, repr(e)[:200])
            continue
        ctx.evaluated()
        ctx.count("whole_operations")

        def norm(calls):
            from ..gen.world import salt_of

            return sorted(repr((c[0], c[1], c[2], salt_of(c[3]))) for c in calls)
        got, want = norm(case.binding.calls), norm(ref[3].calls)
        ctx.count("whole_operation_invocations", len(want))
        if got != want:
            extra = [x for x in got if x not in want][:2]
            missing = [x for x in want if x not in got][:2]
            ctx.violation("whole-operation:resolver-arguments-differ", {"schema_sdl": sdl, "document": text, "variables": variables},
                          "delivered but not expected %r; expected but not delivered %r" % (extra, missing))
        elif len(want) >= 2:
            ctx.mark_nontrivial([sdl, text, variables])


def lib_type_of(case, t):
    import py_gql.schema as PS

    if t[0] == "nonnull":
        return PS.NonNullType(lib_type_of(case, t[1]))
    if t[0] == "list":
        return PS.ListType(lib_type_of(case, t[1]))
    return case.schema.get_type(t[1])


def run(ctx):
    rng = ctx.rng("cases")
    for ci in range(ctx.n(160)):
        case = build(ctx, rng, "c07:%d:%d:%d" % (ctx.seed, ctx.shard, ci))
        try:
            case.schema.validate()
        except Exception as e:
            ctx.violation("generated-schema-rejected:%s" % type(e).__name__, {"schema_sdl": case.sdl}, str(e)[:300])
            continue
        q = case.ir.types[case.ir.query]
        with_args = [f for f in q.fields if f.args]
        for f in with_args:
            for _ in range(6):
                end_to_end_field(ctx, rng, case, f)
            for _ in range(3):
                end_to_end_routes(ctx, rng, case, f)
        dirs = [d for d in case.ir.directives.values() if "FIELD" in d.locations and d.args]
        for d in dirs:
            for _ in range(6):
                end_to_end_directive(ctx, rng, case, rng.choice(q.fields), d)
        for _ in range(30):
            direct_api(ctx, rng, case)
    for wi in range(ctx.n(25)):
        delivered_under_abstract_types(ctx, rng, "c07w:%d:%d:%d" % (ctx.seed, ctx.shard, wi))
    ctx.require("whole_operation_invocations", 50)
    ctx.require("resolver_invocations_checked", 50)
    ctx.require("kwargs_equal_model", 30)
    ctx.require("rejections", 30)
    ctx.require("route_pairs", 20)
    ctx.require("direct:coerce_value", 100)
