# -*- coding: utf-8 -*-
"""C19 Depth limiting flags exactly the operations deeper than the limit."""
import copy

from ..gen import opgen, rulebreak, schemair as S
from ..mon import exec_mon
from ..ref import refdepth

RULE = (
    "valid documents (flat, nested, multi-operation; fragments, inline fragments, merged keys, "
    "@skip/@include steered by variables that are supplied or left to their default; introspection selections) are measured by MaxDepthValidationRule for "
    "every limit in 0..depth+2 and every operation-name filter (each name, an unknown name, none; a "
    "lone operation is left anonymous half of the time), "
    "directly and through validate_ast(validators=[...]); the verdict per operation is compared with "
    "the reference depth of the IR (refdepth); metamorphic copies wrap random sub-selections (incl. "
    "the whole top level) in inline fragments, named fragments and same-key field splits and must "
    "not measure shallower. "
    "One rule instance also serves several requests whose boolean variables change the depth; "
    "operations of multi-operation documents are named Q, QQ, QQQ half of the time. Operations of one document "
    "declare a shared variable with different defaults (each is measured with its own); one rule object is also "
    "called by four threads at once (switch interval 1 us), each call must answer what it answers alone.  "
    "Non-trivial = distinct (document, limit) whose document uses a "
    "fragment, directive or >= 2 operations."
)
ASSUMPTIONS = ["depth convention of the rule's docstring: leaf-only selection = 0, each nesting level below adds 1"]


def measured_depth(rule_cls, schema, document, variables, name, upper):
    """Least limit without error for operation `name` (read back through the rule itself)."""
    for limit in range(0, upper + 3):
        errs = rule_cls(limit, operation_name=name)(schema, document, variables)
        if not errs:
            return limit
    return None


def wrap_copy(rng, doc, ir):
    """Distribute selections over fragments without changing what is selected."""
    d = copy.deepcopy(doc)
    kinds = []
    lists = [(sels, scope, owner) for sels, scope, owner in rulebreak.walk_selection_lists(d, ir)]
    rng.shuffle(lists)
    n = 0
    for sels, scope, owner in lists[:3]:
        if not sels:
            continue
        r = rng.random()
        if r < 0.4:
            inner = list(sels)
            sels[:] = [opgen.OInline(scope if rng.random() < 0.6 else None, inner)]
            kinds.append("inline-wrap")
        elif r < 0.75:
            n += 1
            name = "WrapFragment%d_%d" % (len(d.fragments), n)
            d.fragments[name] = opgen.OFragment(name, scope, list(sels))
            sels[:] = [opgen.OSpread(name)]
            kinds.append("fragment-wrap")
        else:
            objs = [x for x in sels if x.kind == "field" and x.selection and len(x.selection) > 1]
            if objs:
                x = rng.choice(objs)
                k = rng.randint(1, len(x.selection) - 1)
                second = opgen.OField(x.name, x.parent, x.alias, x.args, [], x.selection[k:])
                x.selection = x.selection[:k]
                sels.append(second)
                kinds.append("same-key-split")
    return d, kinds


def ref_of(op, payload):
    """The payload completed with the defaults of this operation's own variable definitions."""
    out = dict(payload)
    for name, _t, default in op.variables:
        if name not in out and isinstance(default, bool):
            out[name] = default
    return out


def probe_defaults_per_operation(ctx, rng, case):
    """Two operations declare the same variable with different defaults and the payload leaves it out: each
    operation is measured with its own default, in whichever order the operations are written."""
    from py_gql.lang import parse
    from py_gql.utilities import MaxDepthValidationRule

    shallow = "query Shallow($s: Boolean = true) { __typename m: __schema @skip(if: $s) { types { name } } }"
    deep = "query Deep($s: Boolean = false) { __typename m: __schema @skip(if: $s) { types { name } } }"
    third = "query Third($s: Boolean = true, $t: Boolean = false) { m: __schema @include(if: $t) { types { fields { name } } } x: __schema @skip(if: $s) { types { name } } }"
    ops = [("Shallow", shallow, 0), ("Deep", deep, 2), ("Third", third, 0)]
    rng.shuffle(ops)
    text = "\n".join(t for _n, t, _d in ops)
    document = parse(text)
    for limit in (0, 1, 2):
        for name, _t, depth in ops:
            ctx.evaluated()
            ctx.count("per_operation_default_probes")
            w = {"schema_sdl": case.sdl, "document": text, "variables": {}, "operation": name, "limit": limit, "expected_depth": depth}
            try:
                flagged = bool(MaxDepthValidationRule(limit, operation_name=name)(case.schema, document, {}))
            except Exception as e:
                ctx.violation("raises:%s" % type(e).__name__, w, repr(e)[:200])
                return
            if flagged != (depth > limit):
                ctx.violation("defaults:operation-measured-with-the-default-of-another-operation", w,
                              "flagged=%r depth %d limit %d" % (flagged, depth, limit))
                return
        try:
            n = len(MaxDepthValidationRule(limit)(case.schema, document, None))
        except Exception as e:
            ctx.violation("raises:%s" % type(e).__name__, {"schema_sdl": case.sdl, "document": text, "limit": limit}, repr(e)[:200])
            return
        if n != sum(1 for _n, _t, depth in ops if depth > limit):
            ctx.violation("defaults:operation-measured-with-the-default-of-another-operation",
                          {"schema_sdl": case.sdl, "document": text, "variables": None, "limit": limit}, "errors=%d" % n)
            return


def run(ctx):
    from py_gql.lang import parse
    from py_gql.utilities import MaxDepthValidationRule
    from py_gql.validation import validate_ast

    rng = ctx.rng("cases")
    for ci in range(ctx.n(150)):
        case = exec_mon.Case(rng, "c19:%d:%d:%d" % (ctx.seed, ctx.shard, ci))
        case.sdl = S.to_sdl(case.ir)[0]
        probe_defaults_per_operation(ctx, rng, case)
        for ri in range(6):
            g = opgen.OpGen(rng, case.ir, max_depth=rng.choice([1, 2, 3, 4]), p_directive=0.3)
            doc = g.document(n_ops=rng.choice([1, 2, 3]))
            # a lone operation may stay anonymous: a name filter then never selects it
            keep_anonymous = len(doc.operations) == 1 and rng.random() < 0.5
            for i, o in enumerate(doc.operations):
                o.name = (None if keep_anonymous else o.name or "Anon%d" % i)
            if keep_anonymous:
                ctx.count("documents_with_anonymous_operation")
            elif len(doc.operations) > 1 and rng.random() < 0.5:
                # names that contain one another: the filter selects by equality
                for i, o in enumerate(doc.operations):
                    o.name = "Q" * (i + 1)
                ctx.count("documents_with_nested_operation_names")
            # introspection fields nest like any other field
            queries = [o for o in doc.operations if o.kind == "query"]
            if queries and rng.random() < 0.3:
                levels = ["types", "fields", "type", "ofType", "ofType"][:rng.randint(0, 5)]
                sel = [opgen.OField("name", "__Type")]
                for lv in reversed(levels):
                    sel = [opgen.OField("name", "__Type"), opgen.OField(lv, "__Type", None, None, None, sel)]
                if levels:
                    sel = sel[1:]        # __schema has no `name`
                else:
                    sel = [opgen.OField("queryType", "__Schema", None, None, None, [opgen.OField("name", "__Type")])]
                o = rng.choice(queries)
                o.selection.append(opgen.OField("__schema", case.ir.query, rng.choice([None, "meta"]), None, None, sel))
                ctx.count("operations_with_introspection_selection")
            families = [("base", doc, [])]
            for _ in range(2):
                d2, kinds = wrap_copy(rng, doc, case.ir)
                if kinds:
                    families.append(("wrapped", d2, kinds))
            base_depths = {}
            # operations that declare the same boolean variable get different defaults for it half of the time
            seen_defaults = {}
            for o in doc.operations:
                for i, (name, t, default) in enumerate(o.variables):
                    if isinstance(default, bool):
                        if name in seen_defaults and rng.random() < 0.5:
                            o.variables[i] = (name, t, not seen_defaults[name])
                        seen_defaults.setdefault(name, default)
            for fam, d, kinds in families:
                text = rulebreak.render(d)
                try:
                    document = parse(text)
                except Exception as e:
                    ctx.mark_inconclusive("harness rendered unparsable text: %r" % text[:200])
                    continue
                # every boolean variable explicitly supplied
                variables = {}
                for o in d.operations:
                    for name, t, default in o.variables:
                        if S.unwrap(t) == "Boolean" and S.nullable(t)[0] == "named":
                            variables[name] = rng.random() < 0.5
                        else:
                            variables[name] = None if t[0] != "nonnull" else None
                ref_vars = dict(variables)
                # a variable that has a default may be left out of the payload: the default steers the directive
                # (every operation that declares the name must give it a default; each operation then measures
                # with its *own* default)
                defaults_of = {}
                for o in d.operations:
                    for name, _t, default in o.variables:
                        defaults_of.setdefault(name, []).append(default)
                for name, ds in sorted(defaults_of.items()):
                    if name in variables and all(isinstance(x, bool) for x in ds) and rng.random() < 0.3:
                        del variables[name]
                        ref_vars.pop(name, None)
                        ctx.count("boolean_variables_left_to_their_default")
                        if len(set(ds)) > 1:
                            ctx.count("variables_with_different_defaults_per_operation")
                payload_vars = dict(ref_vars)

                class _PerOperation(dict):
                    pass
                witness = {"schema_sdl": case.sdl, "document": text, "variables": variables, "family": fam, "wraps": kinds}
                for o in d.operations:
                    try:
                        want = refdepth.depth(o.selection, d, ref_of(o, payload_vars))
                    except KeyError:
                        ctx.abstain("directive variable not boolean")
                        continue
                    shape = "flat" if want == 0 else "nested"
                    ctx.count("operations:" + shape)
                    if any(x.kind != "field" for x in o.selection):
                        ctx.count("operations:top-level-fragment")
                    for limit in range(0, want + 3):
                        ctx.evaluated()
                        ctx.count("rule_calls")
                        if d.fragments or len(d.operations) > 1 or "skip-include" in d.features:
                            ctx.mark_nontrivial([case.sdl, text, variables, o.name, limit])
                        w = dict(witness, operation=o.name, limit=limit, expected_depth=want)
                        try:
                            errs = MaxDepthValidationRule(limit, operation_name=o.name)(case.schema, document, variables)
                        except Exception as e:
                            ctx.violation("raises:%s" % type(e).__name__, w, repr(e)[:200])
                            break
                        flagged = bool(errs)
                        if flagged != (want > limit):
                            if flagged:
                                ctx.violation("false-alarm:flagged-although-not-deeper", w, str(errs[0])[:200])
                            else:
                                ctx.violation("missed:deeper-than-limit-not-flagged:%s" % fam, w, "depth %d limit %d" % (want, limit))
                            break
                    if fam == "base":
                        base_depths[o.name] = want
                    # one rule instance serving several requests with other variable values
                    bool_vars = [n for n, t, _d in o.variables if S.unwrap(t) == "Boolean" and S.nullable(t)[0] == "named"]
                    if bool_vars and "skip-include" in d.features:
                        limit = max(0, want - rng.choice([0, 1]))
                        shared = MaxDepthValidationRule(limit, operation_name=o.name)
                        for _ in range(4):
                            vars2 = dict(variables)
                            for n in bool_vars:
                                vars2[n] = rng.random() < 0.5
                            try:
                                want2 = refdepth.depth(o.selection, d, vars2)
                                flagged2 = bool(shared(case.schema, document, vars2))
                            except KeyError:
                                break
                            except Exception as e:
                                ctx.violation("raises:%s" % type(e).__name__, dict(witness, operation=o.name, variables=vars2), repr(e)[:200])
                                break
                            ctx.evaluated()
                            ctx.count("shared_rule_calls")
                            if flagged2 != (want2 > limit):
                                ctx.violation("history:reused-rule-instance-gives-another-verdict",
                                              dict(witness, operation=o.name, limit=limit, variables=vars2, expected_depth=want2),
                                              "flagged=%r depth %d limit %d" % (flagged2, want2, limit))
                                break
                # filter semantics: unknown name -> nothing; no name -> all operations judged
                ctx.evaluated()
                try:
                    if MaxDepthValidationRule(0, operation_name="NoSuchOperation")(case.schema, document, variables):
                        ctx.violation("filter:unknown-name-reports", witness, "")
                    depths = [refdepth.depth(o.selection, d, ref_of(o, payload_vars)) for o in d.operations]
                    limit = rng.randint(0, max(depths) + 1)
                    errs = MaxDepthValidationRule(limit)(case.schema, document, variables)
                    want_n = sum(1 for x in depths if x > limit)
                    if len(errs) != want_n:
                        ctx.violation("filter:no-name-counts", dict(witness, limit=limit), "errors=%d expected=%d" % (len(errs), want_n))
                    # through validate_ast
                    res = validate_ast(case.schema, document, validators=[MaxDepthValidationRule(limit)], variables=variables)
                    if len(res.errors) != want_n:
                        ctx.violation("filter:validate_ast-counts", dict(witness, limit=limit), "errors=%d expected=%d" % (len(res.errors), want_n))
                    ctx.count("filter_checks")
                except KeyError:
                    ctx.abstain("directive variable not boolean")
                except Exception as e:
                    ctx.violation("raises:%s" % type(e).__name__, witness, repr(e)[:200])
                if fam == "wrapped":
                    ctx.count("wrapped_copies")
                    for k in kinds:
                        ctx.count("wrap:" + k)
            ctx.sample("document", {"document": rulebreak.render(doc)[:300], "depths": base_depths})
    concurrent_use_of_one_rule(ctx, rng)
    ctx.require("operations:flat", 5)
    ctx.require("operations:top-level-fragment", 10)
    ctx.require("wrapped_copies", 20)
    ctx.require("rule_calls", 300)


def concurrent_use_of_one_rule(ctx, rng, n_threads=4, rounds=150):
    """One rule object serves the requests of a threaded server: several threads validate their own document with
    their own variables through the same instance at the same time (short GIL switch interval). Each call has to
    give the verdict it gives alone."""
    import sys
    import threading

    from py_gql.lang import parse
    from py_gql.utilities import MaxDepthValidationRule

    case = exec_mon.Case(rng, "c19c:%d:%d" % (ctx.seed, ctx.shard))
    jobs = []
    for i in range(n_threads):
        depth = i % 3          # __schema chains of different depth, steered by this thread's own variable
        chain = "name"
        for lv in ["types", "fields", "type"][:depth][::-1]:
            chain = "%s { %s }" % (lv, chain)
        body = "{ %s }" % chain if depth else "{ queryType { name } }"
        text = "query Job%d($on: Boolean = false) { __typename deep: __schema @include(if: $on) %s ...Frag } fragment Frag on %s { __typename }" % (
            i, body, case.ir.query)
        want_on = max(depth, 1) + 0     # depth of the chain below __schema, plus the level of __schema itself
        jobs.append((parse(text), {"on": True}, 1 + max(depth, 1) if True else 0, {"on": False}, 0, text))
    limit = 1
    rule = MaxDepthValidationRule(limit)
    # what each call answers alone
    alone = []
    for doc, v_on, _d1, v_off, _d0, _t in jobs:
        alone.append((bool(MaxDepthValidationRule(limit)(case.schema, doc, v_on)), bool(MaxDepthValidationRule(limit)(case.schema, doc, v_off))))
    problems = []
    barrier = threading.Barrier(n_threads)

    def worker(k):
        doc, v_on, _d1, v_off, _d0, text = jobs[k]
        barrier.wait()
        for r in range(rounds):
            for which, variables in ((0, v_on), (1, v_off)):
                try:
                    got = bool(rule(case.schema, doc, variables))
                except Exception as e:
                    problems.append(("concurrent:shared-rule-instance-raises:%s" % type(e).__name__, text, repr(e)[:200]))
                    return
                if got != alone[k][which]:
                    problems.append(("concurrent:shared-rule-instance-gives-another-verdict", text,
                                     "thread %d, variables %r: flagged=%r, alone flagged=%r" % (k, variables, got, alone[k][which])))
                    return

    old = sys.getswitchinterval()
    sys.setswitchinterval(1e-6)
    try:
        threads = [threading.Thread(target=worker, args=(k,)) for k in range(n_threads)]
        for t in threads:
            t.start()
        for t in threads:
            t.join(120)
    finally:
        sys.setswitchinterval(old)
    ctx.evaluated()
    ctx.count("concurrent_rule_calls", n_threads * rounds * 2)
    ctx.count("distinct_verdicts_among_concurrent_jobs", len(set(alone)))
    for key, text, detail in problems[:1]:
        ctx.violation(key, {"schema_sdl": "", "document": text, "threads": n_threads, "limit": limit}, detail)
