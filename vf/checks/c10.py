# -*- coding: utf-8 -*-
"""C10 Every outcome is a well-formed, serialisable response; failures stay contained."""
import json
import random

from ..gen import mutate, opgen, schemair as S
from ..gen.world import World
from ..mon import exec_mon, result_mon, sched
from ..ref import refexec

THOROUGH_SCALE = 8.0   # 16 shards; see DESIGN.md section 7

RULE = (
    "request texts (valid operations, every kind of prefix of them, character / token mutants, "
    "documents with unknown fields / arguments / fragments, hostile lexical fragments) x variable "
    "payloads (missing, null, wrong kind, extra, mutated) x operation-name variants (right, none, "
    "unknown, ambiguous) are sent through graphql_blocking, process_graphql_query (generic executor), "
    "the thread-pool runtime and the asyncio runtime against worlds with ResolverError (with "
    "extensions, a quarter of them carrying a resolver-supplied path), nulls in non-null positions and "
    "non-finite numbers (floats, Decimals, strings, huge integers); no call may raise, every result "
    "must serialise to strict JSON with spec-shaped error entries whose locations lie inside the "
    "submitted text, data must be absent after parse / validation failures, extensions must pass "
    "through, and for executed requests the error paths must match the nulls the reference executor "
    "predicts. "
    "A fifth of the parseable requests are pre-parsed Documents (half of them without positions); "
    "variable payloads contain format-code lookalikes; resolver errors may lack a message or be "
    "one shared instance raised by many resolvers; custom scalars may serialise a value to null.  "
    "Non-trivial = distinct request that ends in an error of any stage or contains a null "
    "/ failure placement."
)
ASSUMPTIONS = ["a location is accepted if it is inside the text under LF-only or LF|CR|CRLF line splitting",
               "values a field's type cannot serialise (wrong python kind) are developer errors outside this property; "
               "non-finite floats for Float fields are in scope because they are ordinary python floats"]


class NanWorld(World):
    """World whose Float leaves are sometimes non-finite."""

    def _gen_core(self, t, rnd, base):
        if t[0] == "named" and t[1] == "Float" and rnd.random() < 0.3:
            import decimal

            # non-finite numbers do not only come as python floats
            return rnd.choice([float("nan"), float("inf"), float("-inf"), decimal.Decimal("NaN"),
                               decimal.Decimal("-Infinity"), "inf", "1e400", "nan", 10 ** 400])
        return World._gen_core(self, t, rnd, base)


def stage_of(result):
    from py_gql.exc import ExecutionError, GraphQLSyntaxError, ValidationError, VariableCoercionError

    if not result.errors:
        return "ok"
    e = result.errors[0]
    if isinstance(e, GraphQLSyntaxError):
        return "syntax"
    if isinstance(e, ValidationError):
        return "validation"
    if isinstance(e, VariableCoercionError):
        return "variables"
    if isinstance(e, ExecutionError):
        return "operation"
    return "field"


def variants(rng, case, doc, text, op, variables):
    """(class, text, operation_name, variables, comparable_with_reference)"""
    out = [("valid", text, op.name, variables, True)]
    # truncations and mutants
    for _ in range(3):
        cut = rng.randrange(0, len(text))
        out.append(("prefix", text[:cut], op.name, variables, False))
    for mop, mt in mutate.char_mutants(rng, text, 3):
        out.append(("char-mutant", mt, op.name, variables, False))
    out.append(("hostile", text.replace("{", "{ " + rng.choice(mutate.HOSTILE_LEXICAL) + " ", 1), op.name, variables, False))
    out.append(("unknown-field", text.replace("{", "{ zz9 ", 1), op.name, variables, False))
    out.append(("unknown-fragment", text.replace("{", "{ ...NoSuchFragment ", 1), op.name, variables, False))
    out.append(("unknown-argument", text.replace("__typename", "__typename(x: 1)", 1), op.name, variables, False))
    # variables
    if op.variables:
        v = dict(variables)
        name = rng.choice(op.variables)[0]
        r = rng.random()
        if r < 0.3:
            v.pop(name, None)
        elif r < 0.5:
            v[name] = None
        else:
            # (payloads are client data: they may contain anything, e.g. text that looks like format codes)
            v[name] = rng.choice([1, "x", [1], {"a": 1}, True, 1.5, [[None]], {"unknown_field": {"b": []}}, 2 ** 40,
                                  "50%", "a%20b", "100%s", "%(x)s", {"%d": 1}, ["%"], "{0}", "{name}", "\\u0041", "\u2028"])
        out.append(("variables-mutated", text, op.name, v, False))
    v = dict(variables)
    v["not_a_variable"] = {"x": [1, 2]}
    out.append(("variables-extra", text, op.name, v, True))
    # operation names
    out.append(("operation-unknown", text, "NoSuchOperation", variables, False))
    if len(doc.operations) > 1:
        out.append(("operation-ambiguous", text, None, variables, False))
    return out


def issue(config, case, text, opname, variables, root):
    import asyncio

    import py_gql
    from py_gql.execution import Executor
    from py_gql.execution.runtime import AsyncIORuntime, ThreadPoolRuntime

    kw = {"variables": variables, "operation_name": opname, "root": root}
    if config == "blocking":
        return py_gql.graphql_blocking(case.schema, text, **kw)
    if config == "generic":
        return py_gql.process_graphql_query(case.schema, text, executor_cls=Executor, **kw)
    if config == "threadpool":
        rt = ThreadPoolRuntime(max_workers=4)
        try:
            return py_gql.process_graphql_query(case.schema, text, runtime=rt, **kw).result(timeout=60)
        finally:
            rt._inner.shutdown(wait=True)
    loop = asyncio.new_event_loop()
    try:
        rt = AsyncIORuntime(loop=loop)
        return loop.run_until_complete(py_gql.process_graphql_query(case.schema, text, runtime=rt, **kw))
    finally:
        # a request that failed early (unexpected exception) may have resolver calls left in the loop's
        # executor threads; wait for them so that they are not attributed to the next request
        try:
            loop.run_until_complete(loop.shutdown_default_executor())
        except Exception:
            pass
        loop.close()


def run(ctx):
    rng = ctx.rng("cases")
    for ci in range(ctx.n(30)):
        nan = ci % 5 == 4
        case = exec_mon.Case(rng, "c10:%d:%d:%d" % (ctx.seed, ctx.shard, ci),
                             world_kw={"p_error": 0.1, "p_null_in_nonnull": 0.06})
        if nan:
            w = NanWorld(case.ir, case.world.seed, p_error=0.1, p_null_in_nonnull=0.06)
            w._served, w._abstract = case.world._served, case.world._abstract
            case.world = w
            case.binding.world = w
        case.sdl = S.to_sdl(case.ir)[0]
        try:
            case.schema.validate()
        except Exception as e:
            ctx.violation("generated-schema-rejected:%s" % type(e).__name__, {"schema_sdl": case.sdl}, str(e)[:300])
            continue
        earlier = []
        for ri in range(5):
            doc, text, op, variables = exec_mon.gen_request(rng, case)
            todo = variants(rng, case, doc, text, op, variables)
            if case.ir.subscription:
                # a subscription document sent to the request/response entry points is a request like any other:
                # it cannot be executed there, which is an error response
                g = opgen.OpGen(rng, case.ir, max_depth=2)
                g.doc = opgen.ODoc()
                sop = g.operation(kind="subscription", name="SubscriptionSentAsRequest")
                todo.append(("subscription-operation", opgen.document_text(g.doc), sop.name,
                             opgen.variable_values(rng, case.sg, sop, nested=g.doc.nested_vars), False))
            for cls, vtext, opname, vvars, comparable in todo:
                config = rng.choice(["blocking", "blocking", "generic", "generic", "threadpool", "asyncio"])
                witness = {"schema_sdl": case.sdl, "world_seed": case.world.seed, "document": vtext,
                           "operation_name": opname, "variables": vvars, "config": config, "class": cls, "nan_world": nan}
                root = case.root_for(op)
                case.binding.calls = []
                # a fifth of the parseable requests are handed over as Document objects, half of those
                # parsed without positions
                request = vtext
                if rng.random() < 0.2:
                    try:
                        from py_gql.lang import parse

                        no_loc = rng.random() < 0.5
                        request = parse(vtext, no_location=no_loc)
                        witness["pre_parsed_document"] = "no_location" if no_loc else "with locations"
                        ctx.count("requests_with_pre_parsed_document")
                    except Exception:
                        request = vtext
                ctx.evaluated()
                ctx.count("requests:" + config)
                ctx.count("class:" + cls)
                try:
                    result = issue(config, case, request, opname, vvars, root)
                except RuntimeError as e:
                    if nan and "cannot be serialized" in str(e):
                        ctx.count("non-finite-float-refused-by-serialiser")
                        continue
                    ctx.violation("entry-point-raises:RuntimeError", witness, repr(e)[:300])
                    continue
                except Exception as e:
                    ctx.violation("entry-point-raises:%s" % type(e).__name__, witness, repr(e)[:300])
                    continue
                stage = stage_of(result)
                ctx.count("stage:" + stage)
                if stage != "ok":
                    ctx.mark_nontrivial([case.sdl, vtext, opname, vvars])
                resp = result_mon.check_response(ctx, result, vtext, witness,
                                                 expect_no_data=stage in ("syntax", "validation"))
                if resp is None:
                    continue
                if stage in ("syntax", "validation") and case.binding.calls:
                    ctx.violation("resolver-ran-after-%s-failure" % stage, witness, "")
                if comparable and not nan and stage in ("ok", "field"):
                    ref = refexec.reference_result(case.ir, doc, op, variables, case.world)
                    if ref[0] == "ok":
                        exec_mon.check_against_reference(ctx, case, doc, vtext, op, vvars, result, ref, witness, "nulls:")
                        if ref[2]:
                            ctx.mark_nontrivial([case.sdl, vtext, opname, vvars])
                            ctx.count("nulls_matched", len(ref[2]))
                        # extensions supplied by the world's resolver errors pass through unchanged
                        want_ext = 0
                        for c in ref[3].calls:
                            o = case.world.outcome(c[0], c[1], c[2], __import__("vf.gen.world", fromlist=["salt_of"]).salt_of(c[3]))
                            if o[0] == "error" and o[2]:
                                want_ext += 1
                        got_ext = sum(1 for e in resp.get("errors", []) if e.get("extensions"))
                        if want_ext != got_ext and not ref[3].type_failures:
                            ctx.violation("extensions:lost-or-invented", witness, "expected %d entries with extensions, response has %d" % (want_ext, got_ext))
                        else:
                            ctx.count("extensions_passed_through", got_ext)
                ctx.sample(stage, {"document": vtext[:200], "variables": vvars, "response": json.dumps(resp, default=repr)[:300]})
                # history: a response is a value. Rendering a result again after later requests were served (by the same
                # schema, resolvers and - shared - error objects) has to give what it gave at first
                try:
                    earlier.append((result, json.dumps(resp, sort_keys=True, default=repr), witness))
                except Exception:
                    pass
                if stage == "field" and isinstance(request, str) and comparable and rng.random() < 0.6:
                    # the same operation once more from another document: every position moves down two lines, the
                    # failing sites (and the error objects the application keeps for them) are the same
                    moved = "# moved\n\n" + vtext
                    w2 = dict(witness, document=moved, **{"class": cls + "+same-operation-from-a-moved-document"})
                    case.binding.calls = []
                    ctx.evaluated()
                    try:
                        again = issue(config, case, moved, opname, vvars, root)
                    except Exception as e:
                        ctx.violation("entry-point-raises:%s" % type(e).__name__, w2, repr(e)[:300])
                        continue
                    ctx.count("requests_repeated_from_a_moved_document")
                    resp2 = result_mon.check_response(ctx, again, moved, w2, expect_no_data=False)
                    if resp2 is None:
                        continue
                    def norm(r, shift):
                        out = []
                        for e in r.get("errors", []):
                            e = dict(e)
                            e["locations"] = [(l.get("line", 0) - shift, l.get("column")) for l in e.get("locations") or []]
                            out.append(json.dumps(e, sort_keys=True, default=repr))
                        return sorted(out)
                    if not nan and norm(resp, 0) != norm(resp2, 2):
                        ctx.violation("history:errors-of-the-same-operation-from-a-moved-document-differ", w2,
                                      "first %r / moved %r" % (norm(resp, 0)[:3], norm(resp2, 2)[:3]))
                    earlier.append((again, json.dumps(resp2, sort_keys=True, default=repr), w2))
        for result, first, w in earlier:
            ctx.evaluated()
            ctx.count("earlier_results_rendered_again")
            try:
                now = json.dumps(result.response(), sort_keys=True, default=repr)
            except Exception as e:
                ctx.violation("history:earlier-result-no-longer-renders:%s" % type(e).__name__, w, repr(e)[:200])
                break
            if now != first:
                ctx.violation("history:earlier-response-changed-after-later-requests", w, "first %s / now %s" % (first[:400], now[:400]))
                break
    ctx.require("stage:syntax", 20)
    ctx.require("stage:validation", 20)
    ctx.require("stage:variables", 5)
    ctx.require("stage:operation", 5)
    ctx.require("nulls_matched", 10)
    ctx.require("locations_checked", 50)
