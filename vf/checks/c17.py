# -*- coding: utf-8 -*-
"""C17 Subscriptions map each source event to one isolated result, in order."""
import asyncio
import random

from ..gen import opgen, schemair as S
from ..gen.world import Binding, Obj, World
from ..mon import exec_mon
from ..ref import refexec

RULE = (
    "for schemas with a subscription root, subscription operations (selections under the subscription "
    "field incl. nested objects, lists, arguments and variables) are subscribed on the asyncio runtime "
    "with source streams of 0-12 events given as async generators and as __anext__ classes with "
    "random await points, from synchronous and coroutine subscription resolvers, with ResolverError "
    "on seeded events and depths; event payloads may be falsy objects, an initial value (root of the "
    "subscription resolver only) is supplied for half of the streams, and the single root field is "
    "written plainly, behind inline / named / nested fragments, or repeated under one response key; "
    "the response stream is consumed with `async for`; a monitor "
    "compares length, order and termination with the source, the k-th result (ordered data, error "
    "paths, error messages) with the reference executor run on event k as root value, and counts "
    "source events consumed; the four refusal classes (several root fields written directly or through fragments, no subscription resolver, "
    "non-subscription operation, runtime without streams) must raise the documented exception with "
    "zero events consumed. "
    "A source may deliver the same object twice in a row: the resolvers must run again for it. "
    "A fifth of the worlds raise unexpected exceptions on some events (the consumer keeps "
    "reading); a third of the schemas share root types; a repeated root field selects other "
    "things under the same key.  "
    "Non-trivial = distinct stream with >= 2 events, an error on some event, or "
    "a refusal case."
)
ASSUMPTIONS = ["results are consumed sequentially with `async for` (the documented usage)"]


class Source(object):
    """Event source with a consumption counter; either an async generator or an __anext__ class."""

    def __init__(self, events, rng, as_class):
        self.events = list(events)
        self.consumed = 0
        self.finished = False
        self.delays = [rng.choice([0, 0, 1, 2]) for _ in range(len(events) + 1)]
        self.as_class = as_class
        self._i = 0

    def stream(self):
        if self.as_class:
            return self
        return self._gen()

    async def _gen(self):
        for i, e in enumerate(self.events):
            for _ in range(self.delays[i]):
                await asyncio.sleep(0)
            self.consumed += 1
            yield e
        for _ in range(self.delays[-1]):
            await asyncio.sleep(0)
        self.finished = True

    def __aiter__(self):
        return self

    async def __anext__(self):
        i = self._i
        for _ in range(self.delays[min(i, len(self.delays) - 1)]):
            await asyncio.sleep(0)
        if i >= len(self.events):
            self.finished = True
            raise StopAsyncIteration()
        self._i += 1
        self.consumed += 1
        return self.events[i]


class FalsyEvent(dict):
    """An event payload that is falsy although it carries data (`0`, `""`, `{}` are legal events)."""

    def __bool__(self):
        return False


class SubCase(object):
    def __init__(self, rng, key):
        # a third of the schemas use one object type for several operations
        self.ir = S.generate(rng, features={"subscription": True, "shared_roots": rng.random() < 0.33},
                             size=rng.choice([1, 2, 3]))
        # a fifth of the worlds also raise unexpected exceptions: the event they hit is lost, the
        # following events must not inherit anything from it
        self.crashes = random.Random("crash:%s" % key).random() < 0.2
        self.world = World(self.ir, key, p_error=0.15, p_null_in_nonnull=0.05, p_crash=0.04 if self.crashes else 0.0,
                           served={self.ir.subscription: "resolver"})
        self.binding = Binding(self.world)
        # String fields sometimes resolve to objects that print as the text and have a coarse equality
        self.binding.loose_strings = True
        self.source = None
        self.async_sub = {}
        self.no_sub_resolver = set()
        r = random.Random("sub:%s" % key)
        sub = self.ir.types[self.ir.subscription]
        for i, f in enumerate(sub.fields):
            self.async_sub[f.name] = r.random() < 0.5
        if len(sub.fields) > 1:
            self.no_sub_resolver.add(sub.fields[-1].name)

        case = self

        def sub_resolver_for(typename, fieldname):
            if typename != case.ir.subscription or fieldname in case.no_sub_resolver:
                return None
            if case.async_sub[fieldname]:
                async def asubscribe(root, context, info, **kwargs):
                    await asyncio.sleep(0)
                    return case.source.stream()
                return asubscribe

            def subscribe(root, context, info, **kwargs):
                return case.source.stream()
            if len(fieldname) % 2:
                # a subscription resolver may be any callable, e.g. a channel object that is falsy while it has
                # no listener
                class Channel(object):
                    def __len__(self):
                        return 0

                    def __call__(self, root, context, info, /, **kwargs):      # arguments may be called `self`
                        return case.source.stream()
                return Channel()
            return subscribe

        self.schema, _ = S.build_code_schema(self.ir, resolver_for=self.binding.resolver_for,
                                             type_resolver_for=self.binding.type_resolver_for,
                                             subscription_resolver_for=sub_resolver_for)
        self.sg = S.SchemaGen(rng)
        self.sg.s = self.ir
        self.sdl = S.to_sdl(self.ir)[0]


async def consume(stream, limit=100, calls=None, marks=None):
    """`async for`, except that an unexpected resolver exception raised for one event is recorded and
    the consumer keeps reading (streams with injected crashes only)."""
    from ..gen.world import Crash

    out = []
    it = stream.__aiter__()
    while len(out) <= limit:
        try:
            r = await it.__anext__()
        except StopAsyncIteration:
            break
        except Crash as e:
            out.append(("crash", e))
        else:
            out.append(r)
        if marks is not None:
            marks.append(len(calls))
    return out


def run(ctx):
    from py_gql.exc import ExecutionError
    from py_gql.execution import subscribe
    from py_gql.execution.runtime import AsyncIORuntime, BlockingRuntime
    from py_gql.lang import parse

    rng = ctx.rng("cases")
    loop = asyncio.new_event_loop()
    try:
        for ci in range(ctx.n(120)):
            case = SubCase(rng, "c17:%d:%d:%d" % (ctx.seed, ctx.shard, ci))
            try:
                case.schema.validate()
            except Exception as e:
                ctx.violation("generated-schema-rejected:%s" % type(e).__name__, {"schema_sdl": case.sdl}, str(e)[:300])
                continue
            sub_type = case.ir.types[case.ir.subscription]
            usable = [f for f in sub_type.fields if f.name not in case.no_sub_resolver]
            for ri in range(6):
                g = opgen.OpGen(rng, case.ir, max_depth=rng.choice([2, 3]))
                # build a subscription on a field that has a subscription resolver
                for _ in range(20):
                    g.doc = opgen.ODoc()
                    op = g.operation(kind="subscription", name="S")
                    if op.selection[0].name in [f.name for f in usable]:
                        break
                else:
                    continue
                doc = g.doc
                root_field = op.selection[0]
                # the single root field may be written behind fragments or repeated under one response key
                shape = rng.choice(["plain", "plain", "inline", "inline-untyped", "named", "repeated", "nested-spreads"])
                if shape == "inline":
                    op.selection = [opgen.OInline(case.ir.subscription, [root_field])]
                elif shape == "inline-untyped":
                    op.selection = [opgen.OInline(None, [root_field])]
                elif shape == "named":
                    doc.fragments["SubRoot"] = opgen.OFragment("SubRoot", case.ir.subscription, [root_field])
                    op.selection = [opgen.OSpread("SubRoot")]
                elif shape == "repeated":
                    other = root_field
                    if root_field.selection is not None:
                        # the second occurrence selects other things below the same response key
                        fdef = case.ir.types[case.ir.subscription].field(root_field.name)
                        other = opgen.OField(root_field.name, root_field.parent, root_field.alias, root_field.args, [],
                                             g.selection_set(S.unwrap(fdef.type), 1))
                        ctx.count("root-field-repeated-with-other-sub-selection")
                    op.selection = [root_field, opgen.OInline(None, [other])]
                elif shape == "nested-spreads":
                    doc.fragments["SubInner"] = opgen.OFragment("SubInner", case.ir.subscription, [root_field])
                    doc.fragments["SubRoot"] = opgen.OFragment("SubRoot", case.ir.subscription, [opgen.OSpread("SubInner")])
                    op.selection = [opgen.OSpread("SubRoot"), root_field]
                ctx.count("root-shape:" + shape)
                text = opgen.document_text(doc)
                variables = opgen.variable_values(rng, case.sg, op, nested=doc.nested_vars)
                n_events = rng.choice([0, 1, 2, 3, 5, 8, 12])
                events = [Obj(case.ir.subscription, "evt-%d-%d-%d" % (ci, ri, k)) for k in range(n_events)]
                falsy = rng.random() < 0.3
                payloads = [case.binding.to_python(e) for e in events]
                if falsy:
                    payloads = [FalsyEvent(p) if rng.random() < 0.7 else p for p in payloads]
                    ctx.count("streams_with_falsy_events")
                # a source may hand out the very same object several times in a row (a piece of shared state): each
                # delivery is an event of its own and is executed again
                repeated_at = []
                if n_events >= 2 and rng.random() < 0.3:
                    j = rng.randrange(1, n_events)
                    payloads[j] = payloads[j - 1]
                    events[j] = events[j - 1]
                    repeated_at.append(j)
                    ctx.count("streams_with_the_same_object_twice_in_a_row")
                source = Source(payloads, rng, as_class=rng.random() < 0.5)
                case.source = source
                in_thread = rng.random() < 0.3
                # the initial value is the root of the subscription resolver only, never of an event
                initial = None
                if rng.random() < 0.5:
                    initial = case.binding.to_python(Obj(case.ir.subscription, "initial-%d-%d" % (ci, ri)))
                    ctx.count("streams_with_initial_value")
                witness = {"schema_sdl": case.sdl, "world_seed": case.world.seed, "document": text,
                           "variables": variables, "events": n_events, "source": "class" if source.as_class else "generator",
                           "async_subscription_resolver": case.async_sub[root_field.name], "in_thread": in_thread,
                           "falsy_events": falsy, "initial_value": initial is not None}
                refs = [refexec.reference_result(case.ir, doc, op, variables, case.world, root=e) for e in events]
                probe = refexec.reference_result(case.ir, doc, op, variables, case.world, root=Obj(case.ir.subscription, "probe"))
                if probe[0] not in ("ok", "crash") or any(r[0] not in ("ok", "crash") for r in refs):
                    ctx.abstain("reference:" + (probe[0] if probe[0] != "ok" else "event"))
                    continue
                if probe[0] == "crash":
                    probe = ("ok", None, [], None)
                crashed_events = [k for k, r in enumerate(refs) if r[0] == "crash"]
                if crashed_events:
                    # deterministic only when nothing is in flight when the exception escapes
                    in_thread = False
                    witness["in_thread"] = False
                    ctx.count("streams_with_crashing_events")
                rt = AsyncIORuntime(loop=loop, execute_blocking_functions_in_thread=in_thread)
                ctx.evaluated()
                ctx.count("streams")
                ctx.count("events_in_sources", n_events)
                if n_events >= 2 or any(r[0] == "ok" and r[2] for r in refs):
                    ctx.mark_nontrivial([case.sdl, text, variables, n_events, source.as_class])

                marks = []
                case.binding.calls = []

                async def go():
                    stream = await subscribe(case.schema, parse(text), variables=variables, operation_name="S",
                                             runtime=rt, initial_value=initial)
                    return await consume(stream, calls=case.binding.calls, marks=marks)

                try:
                    results = loop.run_until_complete(asyncio.wait_for(go(), 60))
                except asyncio.TimeoutError:
                    ctx.mark_inconclusive("stream consumption exceeded the watchdog")
                    continue
                except Exception as e:
                    from py_gql.exc import CoercionError

                    if isinstance(e, CoercionError) and any(len(p) == 1 and k == "argument" for p, k in probe[2]):
                        # the arguments of the root field cannot be coerced (null variable in a non-null
                        # argument): the property leaves this class open; the library refuses the
                        # subscription, which must then happen before any event is consumed
                        ctx.count("root_field_arguments_not_coercible:refused")
                        if source.consumed:
                            ctx.violation("refusal:events-consumed:root-argument-coercion", witness, "consumed=%d" % source.consumed)
                        continue
                    ctx.violation("subscribe-raises:%s" % type(e).__name__, witness, repr(e)[:300])
                    continue
                if len(results) != n_events:
                    ctx.violation("stream:length-differs", witness, "results=%d events=%d" % (len(results), n_events))
                    continue
                if source.consumed != n_events or not source.finished:
                    ctx.violation("stream:source-not-exhausted-or-over-consumed", witness,
                                  "consumed=%d finished=%r" % (source.consumed, source.finished))
                for j in repeated_at:
                    if refs[j][0] != "ok" or len(marks) != n_events:
                        continue
                    per_event = [marks[0]] + [marks[i] - marks[i - 1] for i in range(1, len(marks))]
                    ctx.count("repeated_events_checked_for_being_executed_again")
                    if per_event[j] != per_event[j - 1]:
                        ctx.violation("event:repeated-object-not-executed-again", dict(witness, event_index=j),
                                      "resolver calls per event: %r (events %d and %d are the same object)" % (per_event, j - 1, j))
                for k, (res, ref) in enumerate(zip(results, refs)):
                    ctx.count("event_results_checked")
                    w = dict(witness, event_index=k, crashed_events=crashed_events)
                    if ref[0] == "crash" or isinstance(res, tuple):
                        if ref[0] == "crash" and isinstance(res, tuple):
                            ctx.count("events_lost_to_unexpected_exception")
                        elif ref[0] == "crash":
                            ctx.observe("unexpected exception did not escape from the stream")
                        else:
                            ctx.violation("event:raises:%s" % type(res[1]).__name__, w, repr(res[1])[:200])
                            break
                        continue
                    if not isinstance(res.data, dict):
                        ctx.violation("event:data-missing", w, repr(res.data)[:100])
                        break
                    d = refexec.compare_data(res.data, ref[1])
                    if d:
                        # which event does this result belong to, if any?
                        other = [j for j, r2 in enumerate(refs) if not refexec.compare_data(res.data, r2[1])]
                        kind = "event:order-or-mapping" if other else "event:data-differs"
                        ctx.violation(kind, w, "at %r result=%r model=%r (matches events %r)" % (list(d[0]), d[1], d[2], other))
                        break
                    want = refexec.drop_under_aborted(sorted([p for p, _k in ref[2]], key=repr), ref[3])
                    got = refexec.drop_under_aborted(exec_mon.error_paths(res), ref[3])
                    if want != got:
                        leaked = [p for p in got if p not in want]
                        kind = "event:errors-from-other-events" if leaked and len(got) > len(want) else "event:error-paths-differ"
                        ctx.violation(kind, w, "result=%r model=%r" % (got[:6], want[:6]))
                        break
                    msgs = sorted(str(e) for e in res.errors if "resolver error at" in str(e))
                    if msgs != sorted(m for m in ref[3].error_messages if "resolver error at" in m) and not ref[3].type_failures:
                        ctx.violation("event:error-messages-of-another-event", w, "result=%r model=%r" % (msgs[:3], sorted(ref[3].error_messages)[:3]))
                        break
                    if ref[2]:
                        ctx.count("events_with_errors")
                ctx.sample("stream", {"document": text[:300], "events": n_events,
                                      "error_counts": [len(r[2]) if r[0] == "ok" else "crash" for r in refs]})

            # refusal classes
            field = usable[0] if usable else None
            if field is None:
                continue

            def sel(f):
                args = ""
                req = [a for a in f.args if a.type[0] == "nonnull" and not a.has_default]
                if req:
                    args = "(%s)" % ", ".join("%s: %s" % (a.name, opgen.value_text(case.sg.input_value_for(a.type))) for a in req)
                sub = " { __typename }" if case.ir.kind(S.unwrap(f.type)) in ("object", "interface", "union") else ""
                return f.name + args + sub

            two = "a: %s b: %s" % (sel(field), sel(field))
            several = rng.choice([
                "subscription { %s }" % two,
                "subscription { ... on %s { %s } }" % (case.ir.subscription, two),
                "subscription { ... { %s } }" % two,
                "subscription { ...F } fragment F on %s { %s }" % (case.ir.subscription, two),
                "subscription { ...F } fragment F on %s { a: %s ...G } fragment G on %s { b: %s }" % (
                    case.ir.subscription, sel(field), case.ir.subscription, sel(field)),
                "subscription { a: %s ... { b: %s } }" % (sel(field), sel(field)),
            ])
            refusals = [("several-root-fields", several, AsyncIORuntime(loop=loop), ExecutionError),
                        ("non-subscription-operation", "{ __typename }", AsyncIORuntime(loop=loop), RuntimeError),
                        # the same selection as a query: refused whatever the root types are (they may be shared)
                        ("non-subscription-operation", "query { %s }" % sel(field), AsyncIORuntime(loop=loop), RuntimeError),
                        ("runtime-without-streams", "subscription { %s }" % sel(field), BlockingRuntime(), RuntimeError)]
            if case.no_sub_resolver:
                nf = [f for f in sub_type.fields if f.name in case.no_sub_resolver][0]
                refusals.append(("no-subscription-resolver", "subscription { %s }" % sel(nf), AsyncIORuntime(loop=loop), RuntimeError))
            for cls, text, rt, exc in refusals:
                source = Source([case.binding.to_python(Obj(case.ir.subscription, "r%d" % k)) for k in range(3)], rng, True)
                case.source = source
                witness = {"schema_sdl": case.sdl, "document": text, "refusal": cls}
                ctx.evaluated()
                ctx.count("refusal:" + cls)
                ctx.mark_nontrivial([case.sdl, text, cls])

                async def go2():
                    out = subscribe(case.schema, parse(text), runtime=rt)
                    if asyncio.iscoroutine(out) or isinstance(out, asyncio.Future):
                        out = await out
                    return out

                try:
                    got = loop.run_until_complete(asyncio.wait_for(go2(), 30))
                    ctx.violation("refusal:accepted:%s" % cls, witness, repr(got)[:100])
                except exc as e:
                    if cls == "several-root-fields" and not isinstance(e, ExecutionError):
                        ctx.violation("refusal:wrong-exception:%s" % cls, witness, repr(e)[:200])
                    ctx.count("refusals_ok")
                except Exception as e:
                    ctx.violation("refusal:wrong-exception:%s:%s" % (cls, type(e).__name__), witness, repr(e)[:200])
                if source.consumed:
                    ctx.violation("refusal:events-consumed:%s" % cls, witness, "consumed=%d" % source.consumed)
    finally:
        loop.close()
    ctx.require("streams", 20)
    ctx.require("event_results_checked", 50)
    ctx.require("events_with_errors", 5)
    ctx.require("refusals_ok", 10)
