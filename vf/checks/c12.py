# -*- coding: utf-8 -*-
"""C12 Schema to SDL to schema is the identity; printing is history-independent."""
import json
import os
import random
import re
import subprocess
import sys

from ..gen import schemair as S
from ..ref import canon

RULE = (
    "generated schemas (code-built with coded enums, python names and defaults of every input kind; "
    "SDL-built incl. deprecations) are serialised with Schema.to_string over the option grid indent "
    "{2,4,tab} x descriptions x introspection x custom-schema-directives (bool and whitelist) in a "
    "random sequence of 40-120 calls per process that interleaves several schemas (one of them a "
    "sibling of another: same type names, rotated internal enum values, defaults with the same python "
    "values under other names) and repeats keys; "
    "a monitor checks every output: the parser accepts it; without introspection it is rebuilt with "
    "build_schema and the canonical description of the rebuilt schema must equal that of the schema "
    "IR (names for enum values, no resolvers) and re-printing the rebuilt schema must give the same "
    "text; all outputs of one (schema, options) key must be byte-identical within the process and "
    "equal to the output of the same call made as the first call of a fresh subprocess. Descriptions "
    "come from the class the printer does not re-wrap or re-shape; hostile descriptions run as a "
    "separate workload. Non-trivial = distinct (schema, options) key printed >= 2 times in one "
    "history, or rebuilt."
)
ASSUMPTIONS = ["the schema IR rendered through the public constructors is the schema under test",
               "fresh-process baselines regenerate the same schema from the same seed key"]

OPTION_GRID = []
for indent in (2, 4, "\t"):
    for desc in (True, False):
        for intro in (False, False, True):
            for custom in (False, True, ["tagA"], ["tagB"]):
                OPTION_GRID.append({"indent": indent, "include_descriptions": desc, "include_introspection": intro,
                                    "include_custom_schema_directives": custom})


def sibling_ir(ir):
    """Same type names, different meaning: the internal values of every coded enum are rotated by one
    member and every enum default is renamed so that its *internal* value stays what it was. Anything
    that remembers a rendering by type name and python value confuses the two schemas."""
    import copy

    sib = S.clone(ir)
    rename = {}
    for t in sib.types.values():
        if t.kind == "enum" and getattr(t, "coded", False) and len(t.values) >= 2:
            vals = [v.value for v in t.values]
            n = len(vals)
            for i, v in enumerate(t.values):
                v.value = vals[(i + 1) % n]
                rename[v.name] = t.values[(i - 1) % n].name

    def m(v):
        if isinstance(v, S.EnumLit):
            return S.EnumLit(rename.get(v.name, v.name))
        if isinstance(v, list):
            return [m(x) for x in v]
        if isinstance(v, dict):
            return type(v)((k, m(x)) for k, x in v.items())
        return v

    def fix(inputs):
        for a in inputs:
            if a.has_default:
                a.default = m(a.default)

    for t in sib.types.values():
        if t.kind in ("object", "interface"):
            for f in t.fields:
                fix(f.args)
        elif t.kind == "input":
            fix(t.input_fields)
    for d in sib.directives.values():
        fix(d.args)
    return sib, bool(rename)


def make_schema(key, hostile=False):
    """Deterministic (ir, schema, mode) from a seed key; used by the check and by fresh processes."""
    import py_gql

    if key.endswith("#sibling"):
        ir = S.generate(random.Random(key[:-len("#sibling")]), hostile_descriptions="no-rewrap" if hostile else False,
                        features={"variable_definition_location": True})
        sib, _changed = sibling_ir(ir)
        return sib, S.build_code_schema(sib)[0], "code"
    rng = random.Random(key)
    ir = S.generate(rng, hostile_descriptions="no-rewrap" if hostile else False, features={"variable_definition_location": True})
    mode = rng.choice(["code", "code", "sdl"])
    if mode == "sdl":
        from .c11 import default_nests_owner_type

        if default_nests_owner_type(canon.sdl_view(ir)):
            mode = "code"      # build_schema cannot build these (known finding of C11)
    if mode == "code":
        schema, _ = S.build_code_schema(ir)
    else:
        view = canon.sdl_view(ir)
        # type-system directives applied to types and members (only SDL-built schemas carry them)
        S.apply_schema_directives(view, random.Random("applied:" + key))
        ir.directives["tagA"], ir.directives["tagB"] = view.directives["tagA"], view.directives["tagB"]
        schema = py_gql.build_schema(S.to_sdl(view)[0])
        ir.applied_counts = applied_counts(view)
    return ir, schema, mode


def applied_counts(view):
    """How often each of the two type-system directives is applied in the SDL the schema was built from."""
    out = {"tagA": 0, "tagB": 0}

    def add(x):
        text = getattr(x, "applied", None) or ""
        for tag in out:
            out[tag] += len(re.findall(r"@%s\b" % tag, text))

    for t in view.types.values():
        add(t)
        for f in t.fields:
            add(f)
            for a in f.args:
                add(a)
        for f in t.input_fields:
            add(f)
        for v in t.values:
            add(v)
    return out


def fresh_process_output(key, hostile, options):
    code = (
        "import sys, json; sys.path.insert(0, %r)\n"
        "import vf\n"
        "from vf.checks.c12 import make_schema\n"
        "ir, schema, mode = make_schema(%r, %r)\n"
        "sys.stdout.write(json.dumps(schema.to_string(**json.loads(%r))))\n"
    ) % (os.path.dirname(os.path.dirname(os.path.dirname(os.path.abspath(__file__)))), key, hostile, json.dumps(options))
    env = dict(os.environ, PYTHONHASHSEED="0", PYTHONDONTWRITEBYTECODE="1")
    p = subprocess.run([sys.executable, "-c", code], stdout=subprocess.PIPE, stderr=subprocess.PIPE, timeout=120, env=env)
    if p.returncode != 0:
        return None, p.stderr.decode("utf8", "replace")[-400:]
    return json.loads(p.stdout.decode("utf8")), None


def expected_canon(ir, options):
    view = canon.sdl_view(ir)
    exp = canon.canon_ir(view)
    keep = options["include_descriptions"]

    def strip(d):
        # an empty description and no description are the same thing in SDL
        if isinstance(d, dict):
            return dict((k, (None if k == "description" and (not keep or v == "") else strip(v))) for k, v in d.items())
        if isinstance(d, list):
            return [strip(x) for x in d]
        return d
    return strip(exp)


def opt_key(o):
    return json.dumps(o, sort_keys=True)


def _kind_preserving_scalar(name):
    """A pass-through scalar (what `JSON` scalars are) whose literal parser keeps the kind of the literal."""
    from py_gql.lang import ast as A
    from py_gql.schema import ScalarType

    def lit(node, variables=None):
        if isinstance(node, A.IntValue):
            return int(node.value)
        if isinstance(node, A.FloatValue):
            return float(node.value)
        return node.value

    return ScalarType(name, lambda v: v, lambda v: v, lit)


def _typed(v):
    return (type(v).__name__, v)


def equal_defaults_probe(ctx, rng):
    """Defaults of one pass-through scalar object that are equal as python values without being the same value
    (1 == True == 1.0, 0 == False == 0.0, hash-equal too): each has to be printed as what it is, whatever was printed
    before in this process, by this schema or by another schema using the same scalar object."""
    import py_gql
    from py_gql.schema import Argument, Field, InputField, InputObjectType, ObjectType, Schema, String

    # (no number-like strings: printing those as numbers is a listed known finding of its own)
    pool = [1, True, 1.0, 0, False, 0.0, -1, -1.0, 2, 2.0, "one", "true", 10, 10.0]
    js = _kind_preserving_scalar("JSON")
    for hi in range(ctx.n(6)):
        schemas = []
        for si in range(rng.randint(2, 3)):
            values = [rng.choice(pool) for _ in range(rng.randint(2, 6))]
            args = [Argument("a%d" % i, js, default_value=v) for i, v in enumerate(values)]
            inp = InputObjectType("In%d" % si, [InputField("f%d" % i, js, default_value=v) for i, v in enumerate(reversed(values))])
            q = ObjectType("Query", [Field("f", String, args), Field("g", String, [Argument("i", inp)])])
            schemas.append((Schema(q), values))
        first = {}
        for ci in range(rng.randint(4, 10)):
            si = rng.randrange(len(schemas))
            schema, values = schemas[si]
            w = {"class": "equal-but-distinct defaults of one pass-through scalar", "defaults": [repr(v) for v in values],
                 "schema_index": si, "call_index": ci, "defaults_of_all_schemas": [[repr(v) for v in vs] for _s, vs in schemas]}
            ctx.evaluated()
            ctx.count("equal_defaults_calls")
            try:
                text = schema.to_string()
            except Exception as e:
                ctx.violation("equal-defaults:print-raises:%s" % type(e).__name__, w, repr(e)[:200])
                return
            if si in first and first[si] != text:
                ctx.violation("purity:repeated-call-differs", dict(w, first=first[si][:800], now=text[:800]), "")
                return
            first.setdefault(si, text)
            try:
                rebuilt = py_gql.build_schema(text, additional_types=[_kind_preserving_scalar("JSON")])
            except Exception as e:
                ctx.violation("equal-defaults:rebuild-raises:%s" % type(e).__name__, dict(w, printed=text[:800]), repr(e)[:200])
                return
            got = [_typed(a.default_value) for a in rebuilt.get_type("Query").field_map["f"].arguments]
            want = [_typed(v) for v in values]
            if got != want:
                ctx.violation("roundtrip:equal-defaults-of-a-pass-through-scalar-confused", dict(w, printed=text[:800]),
                              "declared %r, rebuilt from the printed text %r" % (want, got))
                return
            got = [_typed(f.default_value) for f in rebuilt.get_type("In%d" % si).fields]
            want = [_typed(v) for v in reversed(values)]
            if got != want:
                ctx.violation("roundtrip:equal-defaults-of-a-pass-through-scalar-confused", dict(w, printed=text[:800]),
                              "input fields: declared %r, rebuilt from the printed text %r" % (want, got))
                return
            ctx.count("equal_defaults_roundtrips_ok")
            if len(set(map(_typed, values))) > len(set(values)):
                ctx.count("equal_defaults_schemas_with_a_colliding_pair")
                ctx.mark_nontrivial(["equal-defaults", [repr(v) for v in values], hi, ci])


def run(ctx):
    import py_gql
    from py_gql.lang import parse

    rng = ctx.rng("histories")
    for hi in range(ctx.n(12)):
        hostile = hi % 5 == 4
        keys = ["c12:%d:%d:%d:%d" % (ctx.seed, ctx.shard, hi, j) for j in range(rng.randint(2, 4))]
        # a sibling of the first schema: same type names, other internal enum values
        keys.append(keys[0] + "#sibling")
        schemas = {}
        for k in keys:
            try:
                schemas[k] = make_schema(k, hostile)
            except Exception as e:
                ctx.violation("setup:build-raises:%s" % type(e).__name__, {"key": k}, repr(e)[:300])
        if not schemas:
            continue
        outputs = {}        # (key, optkey) -> first text
        counts = {}
        n_calls = rng.randint(40, 120)
        for ci in range(n_calls):
            k = rng.choice(list(schemas))
            ir, schema, mode = schemas[k]
            if outputs and rng.random() < 0.45:
                k, ok = rng.choice(list(outputs))      # repeat an earlier call
                options = json.loads(ok)
                ir, schema, mode = schemas[k]
            else:
                options = dict(rng.choice(OPTION_GRID))
            okey = opt_key(options)
            witness = {"schema_key": k, "mode": mode, "options": options, "call_index": ci, "hostile": hostile,
                       "sdl_of_ir": S.to_sdl(canon.sdl_view(ir))[0][:3000]}
            ctx.evaluated()
            ctx.count("to_string_calls")
            ctx.count("mode:" + mode)
            try:
                text = schema.to_string(**options)
            except Exception as e:
                ctx.violation("to_string-raises:%s" % type(e).__name__, witness, repr(e)[:300])
                continue
            prev = outputs.get((k, okey))
            counts[(k, okey)] = counts.get((k, okey), 0) + 1
            if prev is None:
                outputs[(k, okey)] = text
                first_time = True
            else:
                first_time = False
                ctx.count("repeated_calls_compared")
                ctx.mark_nontrivial([k, okey])
                if prev != text:
                    ctx.violation("purity:output-changes-with-call-history", dict(witness, first=prev[:1500], later=text[:1500]),
                                  "call %d differs from the first call with the same schema and options" % ci)
                continue
            if not first_time:
                continue
            # 1. parser accepts
            try:
                parse(text, allow_type_system=True)
            except Exception as e:
                kind = "hostile-description" if hostile else "plain"
                ctx.violation("printed-sdl-rejected:%s:%s" % (type(e).__name__, kind), dict(witness, printed=text[:3000]), repr(e)[:200])
                continue
            ctx.count("outputs_parsed")
            # 1b. applied type-system directives: every application of a selected directive is printed, no other
            applied = getattr(ir, "applied_counts", None)
            if applied is not None:
                sel = options["include_custom_schema_directives"]
                for tag, n_applied in sorted(applied.items()):
                    want = n_applied if (sel is True or (isinstance(sel, list) and tag in sel)) else 0
                    got_n = len(re.findall(r"@%s\b" % tag, text)) - len(re.findall(r"directive @%s\b" % tag, text))
                    ctx.count("applied_directive_counts_compared")
                    if got_n != want:
                        ctx.violation("applied-directives:printed-%s-than-applied" % ("fewer" if got_n < want else "more"),
                                      dict(witness, printed=text[:3000]),
                                      "@%s applied %d times in the source SDL, selected=%r, printed %d times" % (tag, n_applied, sel, got_n))
                        break
            # 2. round trip
            if not options["include_introspection"]:
                ctx.mark_nontrivial([k, okey, "rebuilt"])
                try:
                    rebuilt = py_gql.build_schema(text)
                except RecursionError as e:
                    from .c11 import default_nests_owner_type

                    if default_nests_owner_type(canon.sdl_view(ir)):
                        ctx.violation("rebuild-raises:RecursionError:default-nests-literal-of-its-own-input-type",
                                      dict(witness, printed=text[:3000]), "")
                    else:
                        ctx.violation("rebuild-raises:RecursionError", dict(witness, printed=text[:3000]), "")
                    continue
                except Exception as e:
                    ctx.violation("rebuild-raises:%s%s" % (type(e).__name__, ":hostile-description" if hostile else ""),
                                  dict(witness, printed=text[:3000]), repr(e)[:300])
                    continue
                got = canon.canon_schema(rebuilt)
                want = expected_canon(ir, options)
                d = canon.diff(got, want)
                if d:
                    # known finding: number-like strings of custom scalars are printed as numbers; judge the rest
                    # of the schema with those strings respelled on both sides
                    nl = canon.numberlike_scalar_strings(ir)
                    if nl and canon.diff(canon.respell(got, nl), canon.respell(want, nl)) is None:
                        ctx.count("numberlike_custom_scalar_defaults_respelled")
                        ctx.violation("roundtrip:number-like-string-default-of-custom-scalar-respelled",
                                      dict(witness, printed=text[:3000]), "at %s rebuilt=%s original=%s" % d)
                        continue
                    if nl:
                        d = canon.diff(canon.respell(got, nl), canon.respell(want, nl))
                    ctx.violation("roundtrip:%s%s" % (canon.diff_key(d), ":hostile-description" if hostile and "description" in d[0] else ""),
                                  dict(witness, printed=text[:3000]), "at %s rebuilt=%s original=%s" % d)
                    continue
                try:
                    again = rebuilt.to_string(**options)
                except Exception as e:
                    ctx.violation("reprint-raises:%s" % type(e).__name__, witness, repr(e)[:300])
                    continue
                # custom schema directives are only carried by SDL nodes: both sides are SDL-built here
                if again != text and not (mode == "code" and options["include_custom_schema_directives"]):
                    ctx.violation("reprint-differs", dict(witness, printed=text[:2000], reprinted=again[:2000]), "")
                    continue
                ctx.count("roundtrips_ok")
            # 3. fresh-process baseline for a tenth of the keys
            if rng.random() < 0.1:
                fresh, err = fresh_process_output(k, hostile, options)
                ctx.evaluated()
                if fresh is None:
                    ctx.mark_inconclusive("fresh process failed: %s" % err)
                else:
                    ctx.count("fresh_process_comparisons")
                    if fresh != text:
                        ctx.violation("purity:differs-from-fresh-process", dict(witness, fresh=fresh[:1500], here=text[:1500]), "")
        ctx.counters["max_history_length"] = max(ctx.counters["max_history_length"], n_calls)
        ctx.count("distinct_keys", len(outputs))
        some = list(outputs.items())[0]
        ctx.sample("history", {"calls": n_calls, "distinct_keys": len(outputs), "options": json.loads(some[0][1]), "text": some[1][:400]})
    equal_defaults_probe(ctx, ctx.rng("equal-defaults"))
    ctx.require("equal_defaults_schemas_with_a_colliding_pair", 10)
    ctx.require("repeated_calls_compared", 30)
    ctx.require("roundtrips_ok", 20)
    ctx.require("fresh_process_comparisons", 2)
