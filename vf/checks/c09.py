# -*- coding: utf-8 -*-
"""C09 Top-level mutation fields run strictly one after another in document order."""
from ..gen import opgen, schemair as S
from ..mon import exec_mon, instr_mon, sched
from ..ref import refexec

THOROUGH_SCALE = 5.0   # 16 shards; see DESIGN.md section 7

RULE = (
    "mutation operations with 1-5 top-level fields (nested deferred sub-fields, lists, ResolverError "
    "at any position) are generated for schemas with a mutation root; each runs under all six "
    "executor/runtime configurations, the deferred ones under the schedule controller (all "
    "completion orders depth-first up to a bound, then sampled); resolver spies and a recording "
    "instrumentation append start/finish events with a logical clock to a thread-safe log; offline, "
    "for every pair of top-level keys i<j the first event under j must come after the last event "
    "under i, every top-level field must have run, and data (key order) and error paths must equal "
    "the reference executor. "
    "Type resolvers raise the resolver error for half of the abstract objects in these worlds.  "
    "Non-trivial = distinct (mutation, configuration, schedule) with >= 2 "
    "top-level fields and >= 1 deferred resolver."
)
ASSUMPTIONS = ["events are ordered by a logical clock taken under a lock at the resolver / hook boundary"]


def run(ctx):
    rng = ctx.rng("cases")
    quick = ctx.tier == "quick"
    max_exh = 30 if quick else 200
    n_samples = 5 if quick else 24
    log = sched.EventLog()
    for ci in range(ctx.n(7)):
        case = exec_mon.DualCase(rng, "c09:%d:%d:%d" % (ctx.seed, ctx.shard, ci), log=log,
                                 schema_kw={"features": {"mutation": True}, "size": rng.choice([1, 2, 3])},
                                 world_kw={"p_error": 0.12, "p_null_in_nonnull": 0.04, "p_type_error": 0.5})
        try:
            case.schema_sync.validate()
        except Exception as e:
            ctx.violation("generated-schema-rejected:%s" % type(e).__name__, {"schema_sdl": case.sdl}, str(e)[:300])
            continue
        for ri in range(4):
            g = opgen.OpGen(rng, case.ir, max_depth=rng.choice([2, 3]), p_fragment=0.15)
            g.operation(kind="mutation", name="M")
            doc = g.doc
            op = doc.operations[0]
            text = opgen.document_text(doc)
            variables = opgen.variable_values(rng, case.sg, op, nested=doc.nested_vars)
            ref = refexec.reference_result(case.ir, doc, op, variables, case.world)
            if ref[0] != "ok":
                ctx.abstain(ref[0])
                continue
            if ref[3].type_failures:
                ctx.count("mutations_with_failing_type_resolver")
            top_keys = list(ref[1].keys())
            ctx.count("mutations")
            ctx.count("top_level_fields", len(top_keys))
            base = {"schema_sdl": case.sdl, "world_seed": case.world.seed, "document": text, "variables": variables,
                    "type_resolver_failures_at": [list(map(str, p)) for p in ref[3].type_failures]}
            for config in exec_mon.CONFIGS:
                def extra():
                    return {"instrumentation": instr_mon.make_instrumentation(log, 0)}

                def run_with(ch, config=config, eager=False):
                    log.events = []
                    return exec_mon.run_request(config, case, text, op, variables, ch, extra, eager=eager)

                seen = set()
                for schedule, (out, trace), exh in exec_mon.schedules(config, rng, run_with, max_exh, n_samples,
                        eager_run_with=lambda ch, run_with=run_with: run_with(ch, eager=True)):
                    events = list(log.events)
                    ctx.evaluated()
                    ctx.count("runs:" + config)
                    ctx.count("events", len(events))
                    key = tuple(trace)
                    if key not in seen:
                        seen.add(key)
                        ctx.count("distinct_schedules:" + config)
                        if len(top_keys) >= 2 and (trace or config in ("blocking", "generic")):
                            ctx.mark_nontrivial([case.sdl, text, variables, config, [list(map(str, t)) for t in trace]])
                    w = dict(base, config=config, schedule=schedule,
                             completion_order=[list(map(str, t)) for t in trace])
                    if out[0] != "ok":
                        ctx.violation("no-result:%s:%s" % (config, out[0]), w, repr(out[1])[:300])
                        break
                    problems, overlap = instr_mon.check_serial(events, top_keys)
                    ctx.counters["max_overlap"] = max(ctx.counters["max_overlap"], overlap)
                    # a failing type resolver anywhere below a top-level field nulls the field being completed there while
                    # its siblings may still be in flight: the enclosing top-level field then finishes early
                    aborted = set(p[0] for p in ref[3].type_failures if len(p) >= 1)
                    for k, detail in problems[:1]:
                        earlier = detail.split(" before ")[-1].split(" finished")[0].strip("'\"")
                        if k == "serial:later-field-started-early" and earlier in aborted:
                            # the earlier field was nulled by a failing type resolver while parts of its
                            # sub-selection were still in flight
                            k = "serial:later-field-started-while-aborted-field-still-resolving"
                        ctx.violation("%s:%s" % (k, config), w, detail)
                    d = refexec.compare_data(out[1], ref[1])
                    if d:
                        import os
                        if os.environ.get("VF_DEBUG"):
                            print("DEBUG errors lib=%r model=%r" % ([str(e) for e in out[3].errors][:6], ref[2][:6]), flush=True)
                        kind = "response-order" if str(d[1]).startswith("keys") else "data-differs"
                        ctx.violation("%s:%s" % (kind, config), w, "at %r outcome=%r model=%r" % (list(d[0]), d[1], d[2]))
                    elif refexec.drop_under_aborted(sorted([p for p, _k in ref[2]], key=repr), ref[3]) != \
                            refexec.drop_under_aborted(out[2], ref[3]):
                        ctx.violation("error-paths-differ:%s" % config, w, "outcome=%r" % (out[2][:5],))
                    if problems:
                        break
                if len(seen) > 1 and ctx.counters["samples_taken"] < 5:
                    ctx.counters["samples_taken"] += 1
                    ctx.sample("mutation:" + config, {"document": text[:300], "top_level_keys": top_keys,
                                                      "distinct_completion_orders": len(seen)})
    if ctx.shard == 0:
        wide_mutation_probe(ctx)
    ctx.require("mutations", 5)
    ctx.require("distinct_schedules:threadpool", 10)
    ctx.require("distinct_schedules:asyncio-mixed", 10)


def wide_mutation_probe(ctx, n=400):
    """Named probe: the statement speaks of 1..n top-level fields. A mutation with 400 of them (wide, not deep) is
    executed under every runtime with synchronous and with deferred resolvers; the call order must be the
    document order and a result must come back."""
    import asyncio

    import py_gql
    from py_gql.execution import Executor
    from py_gql.execution.runtime import AsyncIORuntime, ThreadPoolRuntime

    calls = []
    schema = py_gql.build_schema("type Query { a: Int } type Mutation { step(i: Int!): Int later(i: Int!): Int }")

    def step(root, ctx_, info, i):
        calls.append(i)
        return i

    async def later(root, ctx_, info, i):
        await asyncio.sleep(0)
        calls.append(i)
        return i

    schema.register_resolver("Mutation", "step", step)
    for config in ("blocking", "generic", "threadpool", "asyncio-sync", "asyncio-coroutines"):
        field = "later" if config == "asyncio-coroutines" else "step"
        if field == "later":
            schema.register_resolver("Mutation", "later", later)
        text = "mutation { %s }" % " ".join("a%d: %s(i: %d)" % (i, field, i) for i in range(n))
        del calls[:]
        witness = {"document": text[:200] + " ...", "top_level_fields": n, "config": config}
        ctx.evaluated()
        ctx.count("wide_mutation_probes")
        try:
            if config == "blocking":
                res = py_gql.graphql_blocking(schema, text)
            elif config == "generic":
                res = py_gql.process_graphql_query(schema, text, executor_cls=Executor)
            elif config == "threadpool":
                rt = ThreadPoolRuntime(max_workers=4)
                try:
                    res = py_gql.process_graphql_query(schema, text, executor_cls=Executor, runtime=rt).result(timeout=120)
                finally:
                    rt._inner.shutdown(wait=True)
            else:
                loop = asyncio.new_event_loop()
                try:
                    res = loop.run_until_complete(asyncio.wait_for(
                        py_gql.process_graphql_query(schema, text, executor_cls=Executor, runtime=AsyncIORuntime(loop=loop)), 120))
                finally:
                    loop.close()
        except (Exception, RecursionError) as e:
            ctx.violation("wide-mutation:%s:%s" % (config, type(e).__name__), witness, repr(e)[:200])
            continue
        if res.errors or list((res.data or {}).values()) != list(range(n)):
            ctx.violation("wide-mutation:%s:wrong-result" % config, witness, repr(res.errors)[:200])
        elif calls != list(range(n)):
            ctx.violation("wide-mutation:%s:call-order" % config, witness, repr(calls[:10]))
