# -*- coding: utf-8 -*-
"""C03 Printing a parsed document and parsing it again is the identity."""
import copy

from ..mon.parse_mon import first_diff, lang_workload, lib_entries, normalize
from ..gen import docgen, lexgen

RULE = (
    "every text of the language workload (derivations of executable / type-system documents, values "
    "and types with hostile string contents, their surviving mutants, repository fixtures) that the "
    "library parses is printed with 2-3 indent settings out of {0,1,2,4,8,'\\t','  '} and "
    "include_descriptions=True; the monitor checks that printing does not raise, is deterministic, "
    "the text re-parses under the same flags to an equal tree (to_dict() without loc; descriptions "
    "compared by value because the printer documents block form) and re-prints to the same text. "
    ""
    "Printing also goes through the module-level print_ast after earlier calls with other options "
    "in the same process and must equal a fresh printer's text.  "
    "Non-trivial = distinct (text, indent) whose document has >= 1 string value or description or "
    ">= 2 definitions."
)
ASSUMPTIONS = ["tree equality is Node.to_dict() without loc/source",
               "descriptions printed from quoted strings come back as block strings (documented printer behaviour)"]

INDENTS = [0, 1, 2, 4, 8, "\t", "  "]
MEMBER_KINDS = ("FieldDefinition", "InputValueDefinition", "EnumValueDefinition")


def strip(d, member_desc_found):
    """to_dict() without loc; description nodes reduced to their value; member
    descriptions (known finding) removed and reported through member_desc_found."""
    if isinstance(d, dict):
        out = {}
        kind = d.get("__kind__")
        for k, v in d.items():
            if k == "loc":
                continue
            if k == "description":
                if v is not None and kind in MEMBER_KINDS:
                    member_desc_found.append(kind)
                    out[k] = None
                else:
                    out[k] = None if v is None else {"__description__": v["value"]}
                continue
            out[k] = strip(v, member_desc_found)
        return out
    if isinstance(d, list):
        return [strip(x, member_desc_found) for x in d]
    return d


def has_strings(d):
    if isinstance(d, dict):
        if d.get("__kind__") == "StringValue":
            return True
        return any(has_strings(v) for v in d.values())
    if isinstance(d, list):
        return any(has_strings(v) for v in d)
    return False


def classify(first, text):
    """mechanism discriminator from the first differing position"""
    path, parent, a, b = first
    attr = path.rsplit("/", 1)[-1]
    if attr.isdigit() or attr == "len":
        attr = path.rsplit("/", 2)[-2] + "[]"
    key = "roundtrip-differs:%s.%s" % (parent, attr)
    if parent == "StringValue" and isinstance(a, str) and isinstance(b, str):
        if any(ord(c) > 0xFFFF for c in a + b) or any(0xD800 <= ord(c) <= 0xDFFF for c in a + b):
            key += ":astral-or-surrogate"
    return key


def roundtrip(ctx, entry, text, flags, tree, cls):
    from py_gql.lang.printer import ASTPrinter

    entries = lib_entries()
    rng = ctx.rng("indent", ctx.counters["evaluations"])
    base = normalize(tree.to_dict())
    member = []
    want = strip(base, member)
    if member:
        ctx.violation("roundtrip:member-description-dropped", {"entry": entry, "text": text, "flags": flags},
                      "descriptions on %s are not printed (pinned by test_schema_kitchen_sink)" % sorted(set(member)))
    pflags = {k: v for k, v in flags.items() if k != "no_location"}
    for indent in rng.sample(INDENTS, 2) + ([2] if rng.random() < 0.3 else []):
        witness = {"entry": entry, "text": text, "flags": flags, "indent": indent, "class": cls}
        ctx.evaluated()
        ctx.count("roundtrips:" + entry)
        nd = len(base.get("definitions", [])) if entry == "document" else 0
        if has_strings(base) or nd >= 2:
            ctx.mark_nontrivial([entry, text, repr(indent)])
        printer = ASTPrinter(indent=indent, include_descriptions=True)
        try:
            p1 = printer(tree)
            p1b = ASTPrinter(indent=indent, include_descriptions=True)(tree)
        except Exception as e:
            ctx.violation("print-raises:%s" % type(e).__name__, witness, repr(e))
            continue
        if not isinstance(p1, str):
            ctx.violation("print-not-a-string", witness, repr(p1)[:100])
            continue
        if p1 != p1b:
            ctx.violation("print-nondeterministic", witness, "")
        # the module-level function, after earlier calls with other options in this process
        try:
            from py_gql.lang import print_ast

            if rng.random() < 0.5:
                print_ast(tree, indent=indent, include_descriptions=False)
                ctx.count("print_ast_calls_without_descriptions")
            p1c = print_ast(tree, indent=indent, include_descriptions=True)
            ctx.count("print_ast_calls")
            if p1c != p1:
                ctx.violation("print-nondeterministic:print_ast-differs-from-a-fresh-printer", witness,
                              "print_ast(...) after other calls differs from ASTPrinter(...)(tree)")
        except Exception as e:
            ctx.violation("print-raises:%s" % type(e).__name__, witness, repr(e))
        try:
            t2 = entries[entry](p1, **pflags)
        except Exception as e:
            k = "printed-text-rejected:%s" % type(e).__name__
            ctx.violation(k, dict(witness, printed=p1), "%s: %s" % (type(e).__name__, getattr(e, "message", "")))
            continue
        got = strip(normalize(t2.to_dict()), [])
        if got != want:
            d = first_diff(got, want)
            ctx.violation(classify(d, text), dict(witness, printed=p1), "at %s reparsed=%r original=%r" % (d[0], d[2], d[3]))
            continue
        try:
            p2 = printer(t2)
        except Exception as e:
            ctx.violation("print-raises:%s" % type(e).__name__, dict(witness, printed=p1), repr(e))
            continue
        if p2 != p1:
            ctx.violation("reprint-differs", dict(witness, printed=p1, reprinted=p2), "")
        ctx.count("roundtrips_ok")
        ctx.sample("roundtrip:%s" % cls.split(":")[0], {"text": text[:120], "indent": indent, "printed": p1[:160]})


STRING_CASES = ["", " ", "a", " a", "\ta", "a ", 'a"', '"', '""', '"""', ' "', ' a"', "a\\", " a\\", "\\", " \\",
                "a\nb", " a\n b", "a\n\n b", "  a\nb", "\U0001f600", " \U0001f600", "\ud83d", "é", " ", "\u0000",
                "a\\\"\"\"b", "x\n    y\n  z", "line1\n\n\nline2", "ends with quote\"", "a\n b\"", "\\\"\"\""]


def string_case_texts():
    from py_gql.lang.printer import ASTPrinter  # noqa

    out = []
    for s in STRING_CASES:
        import random

        r = random.Random(repr(s))
        q = lexgen.quoted_string_text(r, s)
        out.append(("value", q, {}))
        out.append(("value", "[%s, {a: %s}]" % (q, q), {}))
        out.append(("document", "{ f(a: %s) @d(b: [%s]) }" % (q, q), {}))
        out.append(("document", "%s type A @d(x: %s) { f(a: S = %s @e(y: %s)): T }" % (q, q, q, q), {"allow_type_system": True}))
        out.append(("document", "%s scalar S %s enum E { A } %s input I { a: S = %s } %s directive @d(a: S = %s) on FIELD %s interface J %s union U" % (q, q, q, q, q, q, q, q), {"allow_type_system": True}))
        out.append(("document", "query ($v: S = %s @d(a: %s)) { a }" % (q, q), {}))
    return out


def run(ctx):
    from py_gql.exc import GraphQLSyntaxError

    entries = lib_entries()
    if ctx.shard % max(1, ctx.nshards // 2) == 0:
        for entry, text, flags in string_case_texts():
            try:
                tree = entries[entry](text, **flags)
            except GraphQLSyntaxError:
                ctx.mark_inconclusive("string case did not parse: %r" % text[:80])
                continue
            # block variants are produced by parsing, then flipping to block form through the AST
            roundtrip(ctx, entry, text, flags, tree, "string-cases")
            flipped = flip_blocks(tree)
            if flipped is not None:
                roundtrip(ctx, entry, text + " /*block*/", flags, flipped, "string-cases-block")

    for entry, text, flags, cls, as_bytes, vbc in lang_workload(ctx, ctx.n(1500), 10, 2, hostile=False):
        if cls.startswith("token-seq") or cls.startswith("prefix") or cls == "fixture-prefix":
            continue
        try:
            tree = entries[entry](text, **flags)
        except GraphQLSyntaxError:
            ctx.count("skipped_rejected")
            continue
        except Exception:
            ctx.count("skipped_crash")
            continue
        roundtrip(ctx, entry, text, flags, tree, cls)
    ctx.require("roundtrips_ok", 200)


def flip_blocks(tree):
    """Copy of a parsed tree where non-description quoted strings whose value could have come from a
    block string (parser-producible: no CR, no leading/trailing blank line, not all-indented) are
    marked block=True. Returns None when nothing was flipped."""
    from py_gql.lang import ast as A
    from ..ref.reflang import block_string_value

    t = copy.deepcopy(tree)
    flipped = [0]

    def visit(n, attr_of_parent=None):
        if isinstance(n, A.StringValue):
            if attr_of_parent != "description" and not n.block and block_string_value(n.value) == n.value \
                    and all(ord(c) >= 0x20 or c in "\t\n" for c in n.value):
                n.block = True
                flipped[0] += 1
            return
        if isinstance(n, A.Node):
            for a in n._props():
                visit(getattr(n, a), a)
        elif isinstance(n, list):
            for x in n:
                visit(x, attr_of_parent)

    visit(t)
    return t if flipped[0] else None


def replay(ctx, key, w):
    from py_gql.exc import GraphQLSyntaxError

    entries = lib_entries()
    text = w["text"].replace(" /*block*/", "")
    try:
        tree = entries[w["entry"]](text, **w["flags"])
    except GraphQLSyntaxError:
        return
    if w["text"].endswith("/*block*/"):
        tree = flip_blocks(tree) or tree
    roundtrip(ctx, w["entry"], w["text"], w["flags"], tree, "replay")
