# -*- coding: utf-8 -*-
"""C14 Extending, cloning and transforming schemas keeps them closed and intact."""
import copy
import random

from ..gen import opgen, schemair as S
from ..gen.schemair import SField, SInput, SType, named
from ..gen.world import Binding, World
from ..ref import canon

RULE = (
    "code-built schemas with uniquely identifiable field resolvers, subscription resolvers, default "
    "resolvers, type resolvers, python names, defaults, descriptions and deprecations are put through "
    "random sequences (length 1-6) of clone(), transform_schema(VisibilitySchemaTransform(predicate)) "
    "with predicates over types / fields / input fields / directives, transform_schema("
    "CamelCaseSchemaTransform()), extend_schema(document) and fix_type_references, applied repeatedly "
    "to the same source and chained on results; after every operation a monitor asserts the closure "
    "invariant on result and source (every reachable type is the object registered under its name), "
    "compares the result's canonical description and identity map (same resolver objects, python "
    "names, defaults, descriptions) with the expectation computed on the schema IR, checks that hidden "
    "names are absent from the introspection answer and rejected by validation, and that the source's "
    "description, identity map, printed SDL and the result of a sample query are unchanged. "
    ""
    "Sources register a third of their resolvers through Schema.register_resolver and half of "
    "them carry a schema-wide default resolver; a third of the types are instances of subclasses; "
    "only SchemaValidationError may refuse a transform; the closure invariant covers the argument "
    "maps of directives and fields; a copy that has served a pre-parsed document is transformed "
    "in place (visibility, camel-casing) and must answer the same Document like a fresh "
    "clone-based transform.  "
    "Non-trivial = distinct operation sequence of length >= 2, or one that removes or renames an element."
)
ASSUMPTIONS = ["expected results of visibility filtering follow the class docstring (direct and indirect removals)",
               "a transform whose result would be an invalid schema may be refused with SchemaValidationError"]


class Tagged(object):
    """Source schema with uniquely identifiable callables."""

    def __init__(self, rng, key):
        self.ir = S.generate(rng, features={"subscription": rng.random() < 0.5, "mutation": True})
        ir = self.ir
        # implementer-only and member-only types (only known through types=)
        ifaces = [t for t in ir.types.values() if t.kind == "interface"]
        if ifaces:
            i = rng.choice(ifaces)
            only = SType("object", "OnlyImplements%s" % i.name, "reachable only as an implementer")
            only.interfaces = [i.name]
            only.fields = list(i.fields) + [SField("own_field", named("String"))]
            ir.add(only)
        canon.annotate_defaults(ir)
        self.world = World(ir, key, p_error=0.0, p_null_in_nonnull=0.0, served=dict((t.name, "resolver") for t in ir.types.values() if t.kind == "object"))
        self.binding = Binding(self.world)
        self.fns = {}

        def tag(kind, *k):
            def make():
                if kind == "resolver":
                    return self.binding.resolver_for(k[0], k[1])
                if kind == "type":
                    base = self.binding.type_resolver_for(k[0])
                    return base or (lambda value, ctx, info: self.binding.obj_of(value).type)
                if kind == "default":
                    from py_gql.execution.default_resolver import default_resolver

                    def dr(root, context, info, **args):
                        return default_resolver(root, context, info, **args)
                    return dr
                if kind == "sub":
                    def sub(root, ctx, info, **kw):
                        return None
                    return sub
            fn = make()
            self.fns[(kind,) + k] = fn
            return fn

        # a third of the field resolvers are attached afterwards through Schema.register_resolver
        later = {}

        def resolver_for(t, f):
            fn = tag("resolver", t, f)
            if fn is not None and rng.random() < 0.33:
                later[(t, f)] = fn
                return None
            return fn

        self.schema, _ = S.build_code_schema(
            ir,
            resolver_for=resolver_for,
            type_resolver_for=lambda t: tag("type", t),
            default_resolver_for=lambda t: tag("default", t) if rng.random() < 0.5 else None,
            subscription_resolver_for=lambda t, f: tag("sub", t, f) if t == ir.subscription else None,
        )
        for (t, f), fn in later.items():
            self.schema.register_resolver(t, f, fn)
        self.registered_later = sorted(later)
        # half of the sources carry a schema-wide default resolver
        if rng.random() < 0.5:
            self.schema.default_resolver = tag("default", "<schema>")
        self.sg = S.SchemaGen(rng)
        self.sg.s = ir


def identity_map(schema):
    """{element: ids of the callables / python names attached}"""
    import py_gql.schema as PS

    out = {("schema",): ("default_resolver", id(schema.default_resolver) if schema.default_resolver else None)}
    for name, t in schema.types.items():
        if canon.is_internal(name):
            continue
        if isinstance(t, PS.ObjectType):
            out[("type", name)] = ("default_resolver", id(t.default_resolver) if t.default_resolver else None)
        if isinstance(t, (PS.InterfaceType, PS.UnionType)):
            out[("type", name)] = ("resolve_type", id(t.resolve_type) if t.resolve_type else None)
        if isinstance(t, (PS.ObjectType, PS.InterfaceType)):
            for f in t.fields:
                out[("field", name, f.python_name)] = (id(f.resolver) if f.resolver else None,
                                                        id(f.subscription_resolver) if f.subscription_resolver else None)
    return out


def apply_visibility(ir, hidden_types, hidden_fields, hidden_inputs, hidden_dirs):
    """Expected IR after VisibilitySchemaTransform (direct and indirect removals)."""
    v = S.clone(ir)
    for n in hidden_types:
        v.types.pop(n, None)
    for d in hidden_dirs:
        v.directives.pop(d, None)
    gone = set(hidden_types)

    def visible(t):
        return S.unwrap(t) not in gone

    for t in v.types.values():
        if t.kind in ("object", "interface"):
            t.fields = [f for f in t.fields if (t.name, f.name) not in hidden_fields and visible(f.type)]
            t.fields = [copy.copy(f) for f in t.fields]
            for f in t.fields:
                f.args = [a for a in f.args if visible(a.type)]
            t.interfaces = [i for i in t.interfaces if i not in gone]
        elif t.kind == "input":
            t.input_fields = [f for f in t.input_fields if (t.name, f.name) not in hidden_inputs and visible(f.type)]
        elif t.kind == "union":
            t.members = [m for m in t.members if m not in gone]
    for d in v.directives.values():
        d.args = [a for a in d.args if visible(a.type)]
    if v.mutation in gone:
        v.mutation = None
    if v.subscription in gone:
        v.subscription = None
    return v


def apply_camel(ir):
    from py_gql._string_utils import snakecase_to_camelcase as cc

    v = S.clone(ir)
    seen = {}
    for t in v.types.values():
        newf = []
        for f in t.fields:
            if id(f) not in seen:
                g = copy.copy(f)
                g.python_name = f.python_name or f.name
                g.name = cc(f.name)
                g.args = []
                for a in f.args:
                    b = copy.copy(a)
                    b.python_name = a.python_name or a.name
                    b.name = cc(a.name)
                    g.args.append(b)
                seen[id(f)] = g
            newf.append(seen[id(f)])
        t.fields = newf
        newi = []
        for f in t.input_fields:
            b = copy.copy(f)
            b.python_name = f.python_name or f.name
            b.name = cc(f.name)
            newi.append(b)
        t.input_fields = newi
    for d in v.directives.values():
        na = []
        for a in d.args:
            b = copy.copy(a)
            b.python_name = a.python_name or a.name
            b.name = cc(a.name)
            na.append(b)
        d.args = na
    return v


def expected_canon(ir):
    return canon.canon_ir(ir, with_python=True, with_enum_values=True)


class State(object):
    """A schema under test together with the IR that describes what it must contain and the
    identity map it must preserve (by python names, which survive renaming)."""

    def __init__(self, schema, ir, idmap, label):
        self.schema, self.ir, self.idmap, self.label = schema, ir, idmap, label


def snapshot(state):
    return (canon.canon_schema(state.schema, with_python=True, with_enum_values=True), identity_map(state.schema),
            state.schema.to_string())


def check_state(ctx, state, witness, prefix):
    """closure + content + identity of one schema against its expectation."""
    problems, edges = canon.closure_problems(state.schema)
    ctx.count("closure_edges_checked", edges)
    for k, detail in problems[:1]:
        ctx.violation("%sclosure:%s" % (prefix, k), witness, detail)
        return False
    got = canon.canon_schema(state.schema, with_python=True, with_enum_values=True)
    d = canon.diff(got, expected_canon(state.ir))
    if d:
        ctx.violation("%scontent:%s" % (prefix, canon.diff_key(d)), witness, "at %s schema=%s expected=%s" % d)
        return False
    ctx.count("attributes_compared", sum(len(v.get("fields", [])) + 1 for v in got["types"].values()))
    ids = identity_map(state.schema)
    for k, v in ids.items():
        if k in state.idmap and state.idmap[k] != v:
            what = "type-resolver-or-default-resolver" if k[0] == "type" else "schema-default-resolver" if k[0] == "schema" else "field-resolver"
            ctx.violation("%sidentity:%s-not-preserved" % (prefix, what), witness, "%r: %r -> %r" % (k, state.idmap[k], v))
            return False
    return True


def in_place_history(ctx, rng, src, sdl):
    import py_gql
    from py_gql.lang import parse
    from py_gql.schema.transforms import VisibilitySchemaTransform, transform_schema

    from ..ref.refcoerce import to_json_value

    ir = src.ir
    q = ir.types[ir.query]
    cands = []
    for f in q.fields:
        for a in f.args:
            t = ir.types.get(S.unwrap(a.type))
            if t is not None and t.kind == "input" and len(t.input_fields) >= 2 and S.nullable(a.type)[0] == "named":
                cands.append((f, a, t))
    if not cands:
        return
    f, a, t = rng.choice(cands)
    hidden = rng.choice([x for x in t.input_fields if not (x.type[0] == "nonnull" and not x.has_default)] or t.input_fields)
    args = []
    for b in f.args:
        if b is a:
            args.append("%s: $v" % b.name)
        elif b.type[0] == "nonnull" and not b.has_default:
            args.append("%s: %s" % (b.name, opgen.value_text(src.sg.input_value_for(b.type))))
    sub = " { __typename }" if ir.kind(S.unwrap(f.type)) in ("object", "interface", "union") else ""
    text = "query ($v: %s) { probe: %s(%s)%s }" % (S.type_str(a.type), f.name, ", ".join(args), sub)
    value = src.sg.input_value_for(a.type, allow_null=False)
    with_hidden = None
    if isinstance(value, dict):
        if hidden.name not in value:
            value[hidden.name] = src.sg.input_value_for(hidden.type)
        with_hidden = {"v": to_json_value(value)}
        value.pop(hidden.name, None)
    variables = {"v": to_json_value(value)}

    class Hide(VisibilitySchemaTransform):
        def is_input_field_visible(self, typename, fieldname):
            return (typename, fieldname) != (t.name, hidden.name)

    witness = {"schema_sdl": sdl, "document": text, "variables": variables, "hidden_input_field": "%s.%s" % (t.name, hidden.name)}

    def ask(schema, document, payload=None):
        r = py_gql.graphql_blocking(schema, document, variables=payload or variables, root=src.binding.root_value(ir.query))
        return (repr(r.data), sorted(str(e) for e in r.errors))

    ctx.evaluated()
    try:
        copy_ = src.schema.clone()
        document = parse(text)
        before = ask(copy_, document)
        Hide().on_schema(copy_)
        copy_.validate()
        after = ask(copy_, document)
        fresh = ask(transform_schema(src.schema, Hide()), parse(text))
        # the hidden input field handed over through the variable: a removed element, nothing a request can use
        smuggled = []
        if with_hidden is not None:
            smuggled.append(("the schema transformed in place after it had coerced that input type", ask(copy_, document, with_hidden)))
            # ... and a clone-based transform of a source that has coerced that input type before
            ask(src.schema, parse(text))
            smuggled.append(("a clone-based transform of a source that had coerced that input type",
                             ask(transform_schema(src.schema, Hide()), parse(text), with_hidden)))
    except Exception as e:
        ctx.count("in_place_history_not_applicable:%s" % type(e).__name__)
        return
    ctx.count("in_place_histories")
    ctx.mark_nontrivial([sdl, text, "in-place"])
    for where, answer in smuggled:
        ctx.count("hidden_input_fields_passed_through_variables")
        if not answer[1]:
            ctx.violation("removed:hidden-input-field-accepted-through-variables", dict(witness, variables=with_hidden),
                          "%s answered %r without any error" % (where, answer[0][:120]))
            return
    if after != fresh:
        ctx.violation("history:in-place-transform:same-document-answers-differently", witness,
                      "after in-place transform %r; fresh transform %r; before %r" % (after[1][:2] or after[0][:80], fresh[1][:2] or fresh[0][:80], before[1][:1]))


def members_record(schema):
    out = {}
    for t in schema.types.values():
        if t.name.startswith("__"):
            continue
        for v in (getattr(t, "values", None) or []) if type(t).__name__.endswith("EnumType") else []:
            out[("enum-value", t.name, v.name)] = (v.description, v.deprecation_reason)
        if hasattr(t, "types"):
            continue
        for f in getattr(t, "fields", None) or []:
            out[("field", t.name, f.name)] = (id(getattr(f, "resolver", None)), f.description,
                                              getattr(f, "deprecation_reason", None))
            for a in getattr(f, "arguments", None) or []:
                out[("argument", t.name, f.name, a.name)] = (a.description,)
    return out


def member_edit_history(ctx, rng, src, sdl):
    """transform_schema() works on a clone so that a visitor may edit what it is handed: members changed *in place*
    (a resolver decorated, a description or deprecation set, the member returned as it is), or resolvers
    registered on the result, must leave the source what it was."""
    from py_gql.schema import SchemaVisitor
    from py_gql.schema.transforms import transform_schema

    mode = rng.choice(["resolver", "description", "deprecation", "register"])
    salt = rng.randrange(4)

    def pick(name):
        return (len(name) + salt) % 2 == 0

    class EditInPlace(SchemaVisitor):
        def on_field(self, field):
            field = SchemaVisitor.on_field(self, field)
            if field is not None and pick(field.name):
                if mode == "resolver" and field.resolver is not None:
                    inner = field.resolver
                    field.resolver = lambda *a, **kw: inner(*a, **kw)
                elif mode == "description":
                    field.description = "edited by the transform"
                elif mode == "deprecation":
                    field.deprecation_reason = "edited by the transform"
            return field

        def on_argument(self, argument):
            if mode == "description" and pick(argument.name):
                argument.description = "edited by the transform"
            return argument

        def on_enum_value(self, enum_value):
            if pick(enum_value.name):
                if mode == "description":
                    enum_value.description = "edited by the transform"
                elif mode == "deprecation":
                    enum_value.deprecation_reason = "edited by the transform"
            return enum_value

    witness = {"schema_sdl": sdl, "edit": mode, "class": "members edited in place by a clone-based transform"}
    before = members_record(src.schema)
    ctx.evaluated()
    try:
        result = transform_schema(src.schema, EditInPlace())
        if mode == "register":
            for t in result.types.values():
                if type(t).__name__ == "ObjectType" and not t.name.startswith("__"):
                    for f in t.fields:
                        if pick(f.name):
                            result.register_resolver(t.name, f.name, lambda *a, **kw: None, allow_override=True)
    except Exception as e:
        ctx.count("member_edit_history_not_applicable:%s" % type(e).__name__)
        return
    ctx.count("member_edit_histories:" + mode)
    after = members_record(src.schema)
    changed = sorted((k for k in before if after.get(k) != before[k]), key=repr)
    if changed:
        ctx.violation("source-modified:member-edited-in-place-on-the-clone:%s" % changed[0][0], witness,
                      "%r: %r -> %r" % (changed[0], before[changed[0]][1:], after.get(changed[0], ("?",))[1:]))
    if members_record(result) == before and mode != "register":
        ctx.count("member_edit_histories_without_effect")


def in_place_renaming_history(ctx, rng, src, sdl):
    """Same idea with the camel-casing transform, which *replaces* every type it renames members of: a
    pre-parsed document naming such a type in a type condition is served before and after."""
    import py_gql
    from py_gql.lang import parse
    from py_gql.schema.transforms import CamelCaseSchemaTransform, transform_schema

    ir = src.ir
    q = ir.types[ir.query]
    cands = []
    for f in q.fields:
        if ir.kind(S.unwrap(f.type)) in ("interface", "union") and not [a for a in f.args if a.type[0] == "nonnull" and not a.has_default]:
            for o in ir.possible_types(S.unwrap(f.type)):
                cands.append((f, o))
    if not cands:
        return
    f, o = rng.choice(cands)
    text = "{ probe: %s { ... on %s { __typename } } }" % (f.name, o)
    witness = {"schema_sdl": sdl, "document": text, "transform": "CamelCaseSchemaTransform().on_schema(copy)"}

    def ask(schema, document):
        r = py_gql.graphql_blocking(schema, document, root=src.binding.root_value(ir.query))
        return (repr(r.data), sorted(str(e) for e in r.errors))

    ctx.evaluated()
    try:
        copy_ = src.schema.clone()
        document = parse(text)
        ask(copy_, document)
        CamelCaseSchemaTransform().on_schema(copy_)
        copy_.validate()
        after = ask(copy_, document)
        fresh = ask(transform_schema(src.schema, CamelCaseSchemaTransform()), parse(text))
    except Exception as e:
        ctx.count("in_place_history_not_applicable:%s" % type(e).__name__)
        return
    ctx.count("in_place_renaming_histories")
    ctx.mark_nontrivial([sdl, text, "in-place-camel"])
    if after != fresh:
        ctx.violation("history:in-place-transform:same-document-answers-differently", witness,
                      "after in-place transform %r; fresh transform %r" % (after[1][:2] or after[0][:80], fresh[1][:2] or fresh[0][:80]))


def run(ctx):
    import py_gql
    from py_gql.exc import SchemaError, SDLError
    from py_gql.schema.fix_type_references import fix_type_references
    from py_gql.schema.transforms import CamelCaseSchemaTransform, VisibilitySchemaTransform, transform_schema
    from py_gql.sdl import extend_schema
    from py_gql.utilities import introspection_query

    rng = ctx.rng("cases")
    for ci in range(ctx.n(25)):
        src = Tagged(rng, "c14:%d:%d:%d" % (ctx.seed, ctx.shard, ci))
        ir = src.ir
        sdl = S.to_sdl(ir)[0]
        source = State(src.schema, ir, identity_map(src.schema), "source")
        try:
            src.schema.validate()
        except Exception as e:
            ctx.violation("generated-schema-rejected:%s" % type(e).__name__, {"schema_sdl": sdl}, str(e)[:300])
            continue
        base_witness = {"schema_sdl": sdl}
        if not check_state(ctx, source, base_witness, "setup:"):
            continue
        snap0 = snapshot(source)
        # sample query on the source
        g = opgen.OpGen(rng, ir, max_depth=2, p_var=0.0, allow_custom_directives=False)
        doc = g.document(n_ops=1)
        qtext = opgen.document_text(doc)
        op = doc.operations[0]
        root_type = dict(ir.roots())[op.kind]

        def sample():
            r = py_gql.graphql_blocking(src.schema, qtext, root=src.binding.root_value(root_type))
            return (repr(r.data), sorted(str(e) for e in r.errors))

        try:
            sample0 = sample()
        except Exception as e:
            ctx.mark_inconclusive("sample query failed on the pristine source: %r" % (e,))
            continue

        # history on one schema object: a copy serves a pre-parsed document, is then transformed *in place*
        # (the visitor API transform_schema itself uses) and serves the very same Document again; the
        # answer must be the one a fresh clone-based transform gives
        in_place_history(ctx, rng, src, sdl)
        in_place_renaming_history(ctx, rng, src, sdl)
        member_edit_history(ctx, rng, src, sdl)

        for si in range(5):
            states = [source]
            seq = []
            n_ops = rng.randint(1, 6)
            for oi in range(n_ops):
                cur = rng.choice(states) if rng.random() < 0.5 else source
                kind = rng.choice(["clone", "visibility", "visibility", "camel", "extend", "fix", "no-transform"])
                step = {"op": kind, "on": cur.label}
                seq.append(step)
                witness = dict(base_witness, sequence=list(seq))
                ctx.evaluated()
                ctx.count("operations:" + kind)
                removes = False
                try:
                    if kind == "no-transform":
                        # the list of enabled transforms may be empty: the result still is a schema of its own
                        res = State(transform_schema(cur.schema), cur.ir, cur.idmap, "s%d" % len(states))
                        if res.schema is cur.schema:
                            ctx.violation("result:no-transform:returns-the-source-schema-itself", dict(witness, step=step),
                                          "transform_schema(schema) with no transform is documented to work on a clone")
                            break
                    elif kind == "clone":
                        res = State(cur.schema.clone(), cur.ir, cur.idmap, "s%d" % len(states))
                    elif kind == "fix":
                        c = cur.schema.clone()
                        res = State(fix_type_references(c), cur.ir, cur.idmap, "s%d" % len(states))
                    elif kind == "camel":
                        res = State(transform_schema(cur.schema, CamelCaseSchemaTransform()), apply_camel(cur.ir), cur.idmap,
                                    "s%d" % len(states))
                        removes = True
                    elif kind == "visibility":
                        cir = cur.ir
                        cand_types = [t.name for t in cir.types.values() if t.name != cir.query]
                        ht = set(rng.sample(cand_types, rng.randint(0, min(2, len(cand_types)))))
                        hf = set()
                        hi = set()
                        for t in cir.types.values():
                            if t.kind in ("object", "interface") and len(t.fields) > 1 and rng.random() < 0.3:
                                hf.add((t.name, rng.choice(t.fields).name))
                            if t.kind == "input" and len(t.input_fields) > 1 and rng.random() < 0.3:
                                hi.add((t.name, rng.choice(t.input_fields).name))
                        hd = set(d for d in cir.directives if rng.random() < 0.3)
                        step.update(hidden_types=sorted(ht), hidden_fields=sorted(hf), hidden_input_fields=sorted(hi),
                                    hidden_directives=sorted(hd))

                        # an allow-list over the application's own types answers False for the specified scalars and
                        # the introspection types as well; those cannot be hidden (documented), so nothing else changes
                        allow_list = rng.random() < 0.4
                        allowed = set(cir.types) - ht
                        step["predicate_style"] = "allow-list" if allow_list else "deny-list"
                        ctx.count("visibility_predicate:" + step["predicate_style"])

                        class V(VisibilitySchemaTransform):
                            def is_type_visible(self, name):
                                return (name in allowed) if allow_list else (name not in ht)

                            def is_field_visible(self, typename, fieldname):
                                return (typename, fieldname) not in hf

                            def is_input_field_visible(self, typename, fieldname):
                                return (typename, fieldname) not in hi

                            def is_directive_visible(self, name):
                                return name not in hd

                        exp_ir = apply_visibility(cir, ht, hf, hi, hd)
                        res = State(transform_schema(cur.schema, V()), exp_ir, cur.idmap, "s%d" % len(states))
                        removes = bool(ht or hf or hi or hd)
                        res.hidden = (ht, hf)
                    else:  # extend
                        cir = cur.ir
                        n = len(states) * 10 + oi
                        q = cir.types[cir.query]
                        new_ir = S.clone(cir)
                        t = SType("object", "Added%d" % n, "added by extension")
                        t.fields = [SField("added_leaf", named("Int")), SField("added_extra", named("String"))]
                        new_ir.add(t)
                        new_ir.types[cir.query].fields.append(SField("added%d" % n, named(t.name)))
                        # the parts may come in any order: in particular the new type is extended by the
                        # same document, before or after its own definition
                        parts = ['"""\nadded by extension\n"""\ntype Added%d {\n  added_leaf: Int\n}\n' % n,
                                 'extend type Added%d {\n  added_extra: String\n}\n' % n,
                                 'extend type %s {\n  added%d: Added%d\n}\n' % (q.name, n, n)]
                        enums = [x for x in cir.types.values() if x.kind == "enum"]
                        if enums and rng.random() < 0.5:
                            e = rng.choice(enums)
                            parts.append("extend enum %s {\n  ADDED_%d\n}\n" % (e.name, n))
                            new_ir.types[e.name].values.append(S.SEnumValue("ADDED_%d" % n))
                        unions = [x for x in cir.types.values() if x.kind == "union"]
                        if unions and rng.random() < 0.4:
                            u = rng.choice(unions)
                            parts.append("extend union %s = Added%d\n" % (u.name, n))
                            new_ir.types[u.name].members.append(t.name)
                        inputs = [x for x in cir.types.values() if x.kind == "input"]
                        if inputs and rng.random() < 0.4:
                            it = rng.choice(inputs)
                            parts.append("extend input %s {\n  added_in_%d: Int = 3\n}\n" % (it.name, n))
                            new_ir.types[it.name].input_fields.append(S.SInput("added_in_%d" % n, named("Int"), 3))
                        rng.shuffle(parts)
                        text = "\n".join(parts)
                        step["document"] = text
                        res = State(extend_schema(cur.schema, text), new_ir, cur.idmap, "s%d" % len(states))
                        removes = True
                except (SchemaError, SDLError) as e:
                    if kind == "extend":
                        # the extension document is valid by construction against the current schema
                        ctx.violation("extend:valid-document-refused:%s" % type(e).__name__, witness, str(e)[:300])
                        break
                    from py_gql.exc import SchemaValidationError

                    if not isinstance(e, SchemaValidationError):
                        # only the validation of the *result* may refuse an operation
                        ctx.violation("operation-raises:%s:%s" % (kind, type(e).__name__), witness, str(e)[:300])
                        break
                    # refusing to produce an invalid schema is allowed (e.g. a type left without fields)
                    step["refused"] = type(e).__name__
                    ctx.count("operations_refused")
                    res = None
                except Exception as e:
                    ctx.violation("operation-raises:%s:%s" % (kind, type(e).__name__), witness, repr(e)[:300])
                    break
                if len(seq) >= 2 or removes:
                    ctx.mark_nontrivial([sdl, seq])
                # the source is never modified, whatever happened
                snap = snapshot(source)
                if snap != snap0:
                    what = "content" if snap[0] != snap0[0] else "identity-map" if snap[1] != snap0[1] else "printed-sdl"
                    d = canon.diff(snap[0], snap0[0]) if snap[0] != snap0[0] else None
                    ctx.violation("source-modified:%s:%s" % (what, kind), witness, "diff %r" % (d,))
                    break
                sp, _edges = canon.closure_problems(source.schema)
                if sp:
                    ctx.violation("source-closure:%s:%s" % (sp[0][0], kind), witness, sp[0][1])
                    break
                try:
                    if sample() != sample0:
                        ctx.violation("source-query-result-changed:%s" % kind, witness, "")
                        break
                except Exception as e:
                    ctx.violation("source-no-longer-queryable:%s:%s" % (kind, type(e).__name__), witness, repr(e)[:200])
                    break
                if res is None:
                    continue
                if cur is not source:
                    # chained: the intermediate result must not be modified either
                    if not check_state(ctx, cur, witness, "intermediate-modified:"):
                        break
                if not check_state(ctx, res, witness, "result:%s:" % kind):
                    break
                # removed names unreachable from introspection and queries
                if kind == "visibility" and removes:
                    try:
                        ans = py_gql.graphql_blocking(res.schema, introspection_query())
                        names = set(t["name"] for t in ans.data["__schema"]["types"])
                        leaked = sorted(ht & names)
                        for t in ans.data["__schema"]["types"]:
                            for f in t.get("fields") or []:
                                if (t["name"], f["name"]) in hf:
                                    leaked.append("%s.%s" % (t["name"], f["name"]))
                        if leaked:
                            ctx.violation("hidden-element-visible-in-introspection", witness, repr(leaked))
                            break
                        for (tn, fn) in hf:
                            if tn == res.ir.query:
                                r = py_gql.graphql_blocking(res.schema, "{ %s }" % fn)
                                if not r.errors:
                                    ctx.violation("hidden-field-still-queryable", witness, fn)
                        ctx.count("hidden_elements_checked", len(ht) + len(hf))
                    except Exception as e:
                        ctx.violation("introspection-on-result-raises:%s" % type(e).__name__, witness, repr(e)[:200])
                        break
                states.append(res)
                ctx.count("operations_checked")
            ctx.sample("sequence", {"sequence": seq})
    ctx.require("operations_checked", 30)
    ctx.require("closure_edges_checked", 500)
