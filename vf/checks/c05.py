# -*- coding: utf-8 -*-
"""C05 Validated operations cannot go wrong; validation itself never crashes."""
import collections
import copy

from ..gen import lexgen, mutate, opgen, rulebreak, schemair as S
from ..mon import exec_mon
from ..ref import refcoerce, refexec
from ..ref.refcoerce import Var

THOROUGH_SCALE = 8.0

RULE = (
    "validate_ast is run on: valid-by-construction documents; every labelled rule violation of "
    "G-RULEBREAK; adversarial IR mutants (identical duplicate fields with list / object / null / "
    "variable / enum arguments, one variable used at two differently typed positions in either order, "
    "conflicts reachable only through fragments nested 2-4 deep with multi-letter names, unknown types "
    "in type conditions / variable types / nested wrappers, self-spreads and cycles); token- and "
    "character-level mutants and truncations that still parse. It must never raise. Whenever it "
    "reports no error the document is executed (generic and blocking executor) with variables fitted "
    "to the declared variable types against a world returning values of the declared types and "
    "ResolverErrors: no exception may escape, every merged response key must denote one field with "
    "pairwise equal arguments and return type (monitor on Executor.resolve_field), and the response "
    "data must have the shape the selection sets and types determine (compared with R-EXEC when the "
    "IR is known, type-shape walk otherwise), including the shape the selection sets alone imply: "
    "every unconditionally selected key present, objects exactly where a sub-selection is written. "
    ""
    "Further classes: list literals at non-list positions, documents parsed with experimental "
    "fragment variables (validation only), and accepted documents against 70 more schemas per "
    "shard.  "
    "Non-trivial = distinct adversarial / mutated document, "
    "or a valid one that was also executed."
)
ASSUMPTIONS = ["resolver results are of the declared types (no nulls in non-null positions) as the statement requires"]


# -- adversarial IR operators (beyond G-RULEBREAK) ---------------------------------------------


def adv_duplicate_identical_field(rng, doc, s):
    """Same field, same (structured) arguments twice: valid, must not crash the merge rule."""
    cands = [(x, sels) for x, sels, scope, owner in rulebreak.all_fields(doc, s) if x.args]
    if not cands:
        return None
    x, sels = rng.choice(cands)
    sels.append(opgen.OField(x.name, x.parent, x.alias, copy.deepcopy(x.args), [],
                             copy.deepcopy(x.selection)))
    return "valid"


def adv_same_key_different_structured_args(rng, doc, s):
    cands = [(x, sels) for x, sels, scope, owner in rulebreak.all_fields(doc, s) if x.args]
    if not cands:
        return None
    x, sels = rng.choice(cands)
    args = copy.deepcopy(x.args)
    k = rng.choice(list(args))
    v = args[k]
    if isinstance(v, list):
        args[k] = v + v[:1] if v else [None]
    elif isinstance(v, dict):
        args[k] = collections.OrderedDict(list(v.items())[:-1]) if v else None
    elif v is None:
        args[k] = []
    else:
        args[k] = None
    sels.append(opgen.OField(x.name, x.parent, x.key, args, [], copy.deepcopy(x.selection)))
    return "maybe-invalid"


def adv_variable_two_positions(rng, doc, s):
    """One variable used at an Int position and at a String position, in either order."""
    q = s.types[s.query]
    ints, strs = [], []
    for f in q.fields:
        for a in f.args:
            base = S.nullable(a.type)
            if base == ("named", "Int"):
                ints.append((f, a))
            if base == ("named", "String"):
                strs.append((f, a))
    ops = [o for o in doc.operations if o.kind == "query"]
    if not ints or not strs or not ops:
        return None
    op = rng.choice(ops)
    (f1, a1), (f2, a2) = rng.choice(ints), rng.choice(strs)
    vt = rng.choice(["Int", "String"])
    op.variables.append(("twice", S.nn(S.named(vt)), S.UNSET))

    def mk(f, a, alias):
        args = collections.OrderedDict()
        for b in f.args:
            if b is a:
                args[b.name] = Var("twice")
            elif b.type[0] == "nonnull" and not b.has_default:
                args[b.name] = rulebreak._sg(rng, s).input_value_for(b.type)
        sub = None
        if s.kind(S.unwrap(f.type)) in ("object", "interface", "union"):
            sub = [opgen.OField("__typename", S.unwrap(f.type))]
        return opgen.OField(f.name, q.name, alias, args, [], sub)

    pair = [mk(f1, a1, "useAsInt"), mk(f2, a2, "useAsString")]
    if rng.random() < 0.5:
        pair.reverse()
    op.selection.extend(pair)
    return "invalid"


def adv_unknown_type_in_wrapper(rng, doc, s):
    op = rng.choice(doc.operations)
    op.variables.append(("u", rng.choice([S.lst(S.nn(S.named("Nope"))), S.nn(S.lst(S.named("Nope"))), S.named("Nope")]), S.UNSET))
    return "invalid"


ADVERSARIAL = [adv_duplicate_identical_field, adv_same_key_different_structured_args, adv_variable_two_positions,
               adv_unknown_type_in_wrapper]


# -- monitors -------------------------------------------------------------------------------------


class AmbiguityMonitor(object):
    """Wraps Executor.resolve_field (harness side): all nodes merged under one response key must
    have the same field name, pairwise equal printed arguments and one return type."""

    def __init__(self, ctx):
        self.ctx = ctx
        self.problems = []
        self.records = []

    def install(self):
        from py_gql.execution import executor as E
        from py_gql.execution import blocking_executor as B
        from py_gql.lang import print_ast

        mon = self
        self._orig = (E.Executor.resolve_field, B.BlockingExecutor.resolve_field)

        def wrap(orig):
            def resolve_field(self_, parent_type, parent_value, field_definition, nodes, path):
                mon.ctx.count("merged_groups_inspected")
                if len(nodes) > 1:
                    mon.ctx.count("merged_groups_with_several_nodes")
                    names = set(n.name.value for n in nodes)
                    if len(names) > 1:
                        mon.problems.append(("ambiguous-key:different-fields", "%r at %r" % (sorted(names), path)))
                    args = set()
                    for n in nodes:
                        args.add(tuple(sorted((a.name.value, print_ast(a.value)) for a in n.arguments)))
                    if len(args) > 1:
                        mon.problems.append(("ambiguous-key:different-arguments", "%r at %r" % (sorted(args)[:2], path)))
                mon.records.append((tuple(path), field_definition.type, any(n.selection_set for n in nodes)))
                return orig(self_, parent_type, parent_value, field_definition, nodes, path)
            return resolve_field

        E.Executor.resolve_field = wrap(self._orig[0])
        B.BlockingExecutor.resolve_field = wrap(self._orig[1])

    def uninstall(self):
        from py_gql.execution import executor as E
        from py_gql.execution import blocking_executor as B

        E.Executor.resolve_field, B.BlockingExecutor.resolve_field = self._orig


def shape_problems(data, records):
    """Type-shape walk: lists where list types are declared, objects where sub-selections exist."""
    import py_gql.schema as PS

    problems = []

    def at(path):
        cur = data
        for p in path:
            if cur is None:
                return ("absent",)
            try:
                cur = cur[p]
            except (KeyError, IndexError, TypeError):
                return ("missing",)
        return ("value", cur)

    def check(t, v, has_sel, path):
        if isinstance(t, PS.NonNullType):
            if v is None:
                problems.append(("shape:null-in-non-null", repr(path)))
                return
            t = t.type
        if v is None:
            return
        if isinstance(t, PS.ListType):
            if not isinstance(v, list):
                problems.append(("shape:list-expected", "%r holds %s" % (path, type(v).__name__)))
                return
            for i, x in enumerate(v):
                check(t.type, x, has_sel, path + (i,))
            return
        if isinstance(t, (PS.ObjectType, PS.InterfaceType, PS.UnionType)):
            if not isinstance(v, dict):
                problems.append(("shape:object-expected", "%r holds %s" % (path, type(v).__name__)))
            elif not has_sel:
                problems.append(("shape:object-without-sub-selection", "%r of type %s" % (path, t)))
        else:
            if has_sel:
                problems.append(("shape:leaf-with-sub-selection", "%r of type %s" % (path, t)))
            if isinstance(v, (dict,)) and isinstance(t, PS.EnumType):
                problems.append(("shape:leaf-expected", "%r holds dict" % (path,)))

    for path, t, has_sel in records:
        got = at(path)
        if got[0] == "value":
            check(t, got[1], has_sel, path)
        elif got[0] == "missing":
            problems.append(("shape:resolved-field-missing-from-data", repr(path)))
    return problems


def selection_shape_problems(document, operation, data):
    """Shape implied by the selection sets alone (no schema, no library component): an unconditionally
    selected key is present in every object of its parent; a field written with a sub-selection holds
    objects (or null / lists of them), a field written without one holds no object."""
    from py_gql.lang import ast as A

    frags = dict((d.name.value, d) for d in document.definitions if isinstance(d, A.FragmentDefinition))
    problems = []

    def each_object(v, fn, path):
        if isinstance(v, list):
            for i, x in enumerate(v):
                each_object(x, fn, path + (i,))
        elif v is not None:
            fn(v, path)

    def has_object(v):
        if isinstance(v, list):
            return any(has_object(x) for x in v)
        return isinstance(v, dict)

    def walk(selections, obj, path, unconditional, seen):
        for sel in selections:
            cond = unconditional and not sel.directives
            if isinstance(sel, A.Field):
                key = sel.alias.value if sel.alias else sel.name.value
                if key not in obj:
                    if cond:
                        problems.append(("shape:selected-key-missing", "%r lacks %r" % (path, key)))
                    continue
                v = obj[key]
                if sel.selection_set is not None and sel.selection_set.selections:
                    def visit(x, p, sel=sel):
                        if not isinstance(x, dict):
                            problems.append(("shape:object-expected-by-selection", "%r holds %s" % (p, type(x).__name__)))
                        else:
                            walk(sel.selection_set.selections, x, p, cond, set())
                    each_object(v, visit, path + (key,))
            elif isinstance(sel, A.InlineFragment):
                walk(sel.selection_set.selections, obj, path, cond and sel.type_condition is None, seen)
            elif isinstance(sel, A.FragmentSpread):
                name = sel.name.value
                if name in frags and name not in seen:
                    walk(frags[name].selection_set.selections, obj, path, False, seen | set([name]))

    if isinstance(data, dict):
        walk(operation.selection_set.selections, data, (), True, set())
    return problems


def ast_type_to_ir(node):
    from py_gql.lang import ast as A

    if isinstance(node, A.NonNullType):
        return S.nn(ast_type_to_ir(node.type))
    if isinstance(node, A.ListType):
        return S.lst(ast_type_to_ir(node.type))
    return S.named(node.name.value)


def variables_for(rng, case, document, op_name, p_omit=0.25):
    """JSON values fitted to the declared variable types of the (library-parsed) operation."""
    from py_gql.lang import ast as A

    ops = [d for d in document.definitions if isinstance(d, A.OperationDefinition)]
    op = None
    for o in ops:
        if (o.name.value if o.name else None) == op_name:
            op = o
    if op is None and ops:
        op = ops[0]
    out = {}
    if op is None:
        return out
    for vd in op.variable_definitions:
        t = ast_type_to_ir(vd.type)
        if t[0] != "nonnull" and vd.default_value is None and rng.random() < p_omit:
            continue        # a nullable variable without default may be left out of the payload
        try:
            out[vd.variable.name.value] = refcoerce.to_json_value(case.sg.input_value_for(t, allow_null=(t[0] != "nonnull")))
        except Exception:
            pass
    return out


def validate_and_maybe_execute(ctx, rng, case, text, cls, doc_ir=None, op_ir=None, amb=None):
    import py_gql
    from py_gql.exc import GraphQLSyntaxError
    from py_gql.execution import Executor
    from py_gql.lang import ast as A, parse
    from py_gql.validation import validate_ast

    witness = {"schema_sdl": case.sdl, "world_seed": case.world.seed, "document": text, "class": cls}
    try:
        document = parse(text)
    except GraphQLSyntaxError:
        ctx.count("skipped_unparsable")
        return
    except Exception:
        ctx.count("skipped_parser_crash")
        return
    ctx.evaluated()
    ctx.count("validated:" + cls.split(":")[0])
    try:
        res = validate_ast(case.schema, document)
        errors = list(res.errors)
    except Exception as e:
        ctx.violation("validate-raises:%s" % type(e).__name__, witness, repr(e)[:300])
        return
    if cls != "valid":
        ctx.mark_nontrivial([case.sdl, text])
    # a document parsed without source positions is the same document: if it is accepted where the located one is
    # not, it would be executed although it can go wrong
    try:
        noloc = list(validate_ast(case.schema, parse(text, no_location=True)).errors)
        ctx.count("validated_without_locations")
        if bool(noloc) != bool(errors):
            ctx.violation("verdict-changes-without-source-positions", witness,
                          "with positions: %r; without: %r" % ([str(e) for e in errors][:2], [str(e) for e in noloc][:2]))
            return
    except Exception as e:
        ctx.violation("validate-raises:%s:no_location" % type(e).__name__, witness, repr(e)[:300])
        return
    if errors:
        ctx.count("verdict:invalid")
        return
    ctx.count("verdict:valid")
    ops = [d for d in document.definitions if isinstance(d, A.OperationDefinition)]
    if not ops:
        return
    target = rng.choice(ops)
    if op_ir is not None:
        named = [o for o in ops if (o.name.value if o.name else None) == op_ir.name]
        if named:
            target = named[0]
    elif cls.startswith("rulebreak:") and len(ops) > 1:
        # a labelled violation that validation lets through: every operation of the document has to be
        # executable, with every variable supplied and with the nullable ones left out
        for t2 in ops:
            for omit in (0.0, 1.0):
                _execute_accepted(ctx, rng, case, text, cls, document, t2, None, None, amb, dict(witness), omit)
        return
    _execute_accepted(ctx, rng, case, text, cls, document, target, doc_ir, op_ir, amb, witness, 0.25)


def _execute_accepted(ctx, rng, case, text, cls, document, target, doc_ir, op_ir, amb, witness, p_omit):
    import py_gql
    from py_gql.execution import Executor

    if target.operation == "subscription":
        return
    op_name = target.name.value if target.name else None
    if op_ir is not None:
        op_name = op_ir.name
        variables = opgen.variable_values(rng, case.sg, op_ir, nested=doc_ir.nested_vars if doc_ir else ())
        variables = dict((k, v) for k, v in variables.items())
        # the statement quantifies over *accepted* variables: always supply conforming values
        for name, t, d in op_ir.variables:
            if name not in variables and (t[0] == "nonnull" and d is S.UNSET):
                variables[name] = refcoerce.to_json_value(case.sg.input_value_for(t, allow_null=False))
    else:
        variables = variables_for(rng, case, document, op_name, p_omit)
    witness["variables"] = variables
    witness["operation_name"] = op_name
    root_type = {"query": case.ir.query, "mutation": case.ir.mutation}[target.operation]
    executor = rng.choice(["blocking", "generic"])
    amb.problems, amb.records = [], []
    case.binding.calls = []
    try:
        kw = dict(variables=variables, operation_name=op_name, root=case.binding.root_value(root_type))
        if executor == "blocking":
            result = py_gql.graphql_blocking(case.schema, text, **kw)
        else:
            result = py_gql.process_graphql_query(case.schema, text, executor_cls=Executor, **kw)
    except Exception as e:
        ctx.violation("valid-document-execution-raises:%s" % type(e).__name__, dict(witness, executor=executor), repr(e)[:300])
        return
    ctx.count("executed_after_valid")
    if cls == "valid":
        ctx.mark_nontrivial([case.sdl, text, variables])
    for k, detail in amb.problems[:1]:
        ctx.violation(k, witness, detail)
    from py_gql.exc import VariableCoercionError

    if any(isinstance(e, VariableCoercionError) for e in result.errors):
        ctx.count("variables_not_accepted")
        return
    if isinstance(result.data, dict):
        for k, detail in shape_problems(result.data, [r for r in amb.records])[:1]:
            # nulls in non-null positions only stem from the world (p=0 here) or resolver errors
            if k == "shape:null-in-non-null":
                continue
            ctx.violation(k, witness, detail)
        for k, detail in selection_shape_problems(document, target, result.data)[:1]:
            ctx.violation(k, witness, detail)
        ctx.count("shapes_checked")
    if doc_ir is not None and op_ir is not None and cls in ("valid", "adversarial:valid"):
        ref = refexec.reference_result(case.ir, doc_ir, op_ir, variables, case.world)
        if ref[0] == "ok":
            exec_mon.check_against_reference(ctx, case, doc_ir, text, op_ir, variables, result, ref, witness, "shape:")


def run(ctx):
    rng = ctx.rng("cases")
    amb = AmbiguityMonitor(ctx)
    amb.install()
    try:
        for ci in range(ctx.n(8)):
            case = exec_mon.Case(rng, "c05:%d:%d:%d" % (ctx.seed, ctx.shard, ci),
                                 world_kw={"p_null_in_nonnull": 0.0, "p_error": 0.06},
                                 schema_kw={"features": {"mutation": ci % 2 == 0}})
            case.sdl = S.to_sdl(case.ir)[0]
            try:
                case.schema.validate()
            except Exception as e:
                ctx.violation("generated-schema-rejected:%s" % type(e).__name__, {"schema_sdl": case.sdl}, str(e)[:300])
                continue
            for ri in range(5):
                g = opgen.OpGen(rng, case.ir, max_depth=rng.choice([2, 3]))
                doc = g.document()
                text = opgen.document_text(doc)
                op = rng.choice(doc.operations)
                validate_and_maybe_execute(ctx, rng, case, text, "valid", doc, op, amb)
                # more accepted documents: each is executed and its data compared with the reference shape
                for _ in range(2):
                    g2 = opgen.OpGen(rng, case.ir, max_depth=rng.choice([2, 3, 4]))
                    d2 = g2.document()
                    validate_and_maybe_execute(ctx, rng, case, opgen.document_text(d2), "valid", d2, rng.choice(d2.operations), amb)
                # labelled rule violations: validation must not raise (and accepted ones must execute)
                # operators that found few applicable documents so far in this shard get their turn first
                ops_ = rng.sample(rulebreak.OPERATORS, len(rulebreak.OPERATORS))
                ops_.sort(key=lambda f: ctx.counters["rulebreak_applied:" + f.__name__] >= 4)
                tried = 0
                for op_fn in ops_:
                    if tried >= 8:
                        break
                    if op_fn.__name__ == "type_definition_in_document":
                        continue
                    broken = rulebreak.apply_operator(rng, doc, case.ir, op_fn)
                    if broken is not None:
                        tried += 1
                        ctx.count("rulebreak_applied:" + op_fn.__name__)
                        validate_and_maybe_execute(ctx, rng, case, rulebreak.render(broken), "rulebreak:" + op_fn.__name__, None, None, amb)
                for adv in ADVERSARIAL:
                    d2 = copy.deepcopy(doc)
                    verdict = adv(rng, d2, case.ir)
                    if verdict is None:
                        continue
                    t2 = rulebreak.render(d2)
                    ctx.count("adversarial:" + adv.__name__)
                    if verdict == "valid":
                        op2 = d2.operations[doc.operations.index(op)]
                        validate_and_maybe_execute(ctx, rng, case, t2, "adversarial:valid", d2, op2, amb)
                    else:
                        validate_and_maybe_execute(ctx, rng, case, t2, "adversarial:" + adv.__name__, None, None, amb)
                # the parser's experimental fragment variables: validation of such trees must not raise
                if doc.fragments:
                    import re as _re

                    fv_text = _re.sub(r"fragment (\w+) on ", lambda m: "fragment %s($fv%d: Int = 1, $fw: [String!]) on " % (m.group(1), len(m.group(1))),
                                      text, count=rng.randint(1, 2))
                    if rng.random() < 0.5:
                        fv_text = "\n\n".join(reversed(fv_text.strip().split("\n\n"))) + "\n"
                    ctx.evaluated()
                    ctx.count("fragment_variable_documents")
                    try:
                        from py_gql.lang import parse as _parse
                        from py_gql.validation import validate_ast as _validate

                        _validate(case.schema, _parse(fv_text, experimental_fragment_variables=True))
                    except Exception as e:
                        ctx.violation("validate-raises:%s:fragment-variables" % type(e).__name__,
                                      {"schema_sdl": case.sdl, "document": fv_text, "flags": {"experimental_fragment_variables": True}},
                                      repr(e)[:300])
                # introspection meta fields outside the query root and in odd places
                meta = ["{ __schema { queryType { name } } __type(name: \"String\") { name kind } __typename }",
                        "{ ...M } fragment M on %s { __schema { types { name } } }" % case.ir.query]
                if case.ir.mutation:
                    m = case.ir.mutation
                    meta += ["mutation { __schema { queryType { name } } }",
                             "mutation { __type(name: \"String\") { name } }",
                             "mutation { __typename ...M } fragment M on %s { __schema { queryType { name } } }" % m,
                             "mutation { ... on %s { __type(name: \"%s\") { fields { name } } } }" % (m, m)]
                if case.ir.subscription:
                    meta += ["subscription { __schema { queryType { name } } }"]
                objs = [t for t in case.ir.types.values() if t.kind == "object" and t.name not in (case.ir.query, case.ir.mutation, case.ir.subscription)]
                for o in objs[:1]:
                    holder = [f for f in case.ir.types[case.ir.query].fields if S.unwrap(f.type) == o.name and not [a for a in f.args if a.type[0] == "nonnull" and not a.has_default]]
                    for f in holder[:1]:
                        meta.append("{ %s { __schema { queryType { name } } } }" % f.name)
                        meta.append("{ %s { __typename __type(name: \"Int\") { name } } }" % f.name)
                for t in meta:
                    ctx.count("adversarial:meta-fields")
                    validate_and_maybe_execute(ctx, rng, case, t, "adversarial:meta-field-placement", None, None, amb)
                # text-level mutants that still parse
                from ..ref import reflang

                toks = [text[t.start:t.end] for t in reflang.lex(text) if t.kind != "EOF"]
                for mop, mt in mutate.token_mutants(rng, toks, 10):
                    validate_and_maybe_execute(ctx, rng, case, lexgen.render(rng, mt, "space"), "token-mutant:" + mop, None, None, amb)
                for mop, mt in mutate.char_mutants(rng, text, 4):
                    validate_and_maybe_execute(ctx, rng, case, mt, "char-mutant:" + mop, None, None, amb)
        # many more schemas with accepted documents only: executed, data compared with the reference shape
        for ci in range(ctx.n(70)):
            case = exec_mon.Case(rng, "c05v:%d:%d:%d" % (ctx.seed, ctx.shard, ci), world_kw={"p_error": 0.05, "p_null_in_nonnull": 0.0})
            case.sdl = S.to_sdl(case.ir)[0]
            try:
                case.schema.validate()
            except Exception:
                continue
            for _ in range(6):
                g2 = opgen.OpGen(rng, case.ir, max_depth=rng.choice([2, 3, 4]))
                d2 = g2.document()
                validate_and_maybe_execute(ctx, rng, case, opgen.document_text(d2), "valid", d2, rng.choice(d2.operations), amb)
    finally:
        amb.uninstall()
    ctx.require("verdict:valid", 20)
    ctx.require("verdict:invalid", 50)
    ctx.require("executed_after_valid", 20)
    ctx.require("merged_groups_inspected", 100)
