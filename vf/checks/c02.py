# -*- coding: utf-8 -*-
"""C02 Parsed trees mirror the source: structure, decoded values and spans."""
from ..core_patch import patch_everywhere
from ..gen import lexgen
from ..mon.parse_mon import ParseMonitor, count_nodes, lang_workload
from ..ref import reflang

RULE = (
    "every text of the C01 workload that both the library and R-LANG accept is compared node by "
    "node (kinds, names, order, decoded values, block flags, spans, None spans under no_location) "
    "with the tree of the independent grammar model; spanned texts of values, types and definitions "
    "are re-parsed with the library and compared modulo offset; every call of parse_block_string "
    "made by any workload is checked against the specification's BlockStringValue algorithm; plus "
    "a string-focused corpus (escapes x positions, block strings over indentation x terminators x "
    "Unicode blanks). Non-trivial = distinct accepted text whose tree has >= 5 nodes or contains "
    "an escaped or block string."
)
ASSUMPTIONS = [
    "R-LANG transcribes the June-2018 grammar; Document spans follow the library's <SOF>..<EOF> convention",
]

BLANKS = [" ", "\t", " ", " ", " ", "\u0085", "　", "\x0b", "\x0c", "\x1c", "\x1d", "\x1e", "﻿"]
TERMS = ["\n", "\r", "\r\n"]


def string_corpus(ctx):
    """Block strings: indentation patterns x line terminators x Unicode blanks in leading,
    inner, trailing and blank-line positions; quoted strings: every escape kind x position."""
    rng = ctx.rng("strings")
    out = []
    for b in BLANKS:
        for t in TERMS:
            out.append('"""%sfirst%s  %ssecond%s  third%s%s"""' % (b, t, b, t, t, b))
            out.append('"""%s%s%s    a%s%s%s    b%s"""' % (t, b, t, t, b, t, t))
            out.append('"""a%sb%s  c%sd"""' % (b, t, b))
            out.append('"""%s  x%s%s  y"""' % (t, t + b, t))
            out.append('"""  x%s%s%s"""' % (t, b, t))
    escapes = ['\\"', "\\\\", "\\/", "\\b", "\\f", "\\n", "\\r", "\\t", "\\u0041", "\\u00e9", "\\uFFFF",
               "\\ud83d\\ude00", "\\u0000", "\\u2028", "\U0001f600", "é", " ", " ", "\t"]
    for e in escapes:
        for tmpl in ('"%s"', '"a%s"', '"%sb"', '"a%sb%s"', '"%s%s"'):
            out.append(tmpl % ((e,) * tmpl.count("%s")))
    for _ in range(ctx.n(300)):
        text, _raw = lexgen.block_string_text(rng)
        out.append(text)
        out.append(lexgen.quoted_string_text(rng, lexgen.string_value(rng, 10)))
    return out


def run(ctx):
    from py_gql import _string_utils as SU

    orig = SU.parse_block_string

    def checked_parse_block_string(raw):
        got = orig(raw)
        exp = reflang.block_string_value(raw)
        ctx.count("parse_block_string_calls")
        if got != exp:
            ctx.violation("block-string-value", {"raw": raw}, "library=%r spec=%r" % (got, exp))
        return got

    n = patch_everywhere(orig, checked_parse_block_string)
    ctx.count("parse_block_string_bindings_patched", n)

    mon = ParseMonitor(ctx, check_trees=True, check_errors=False)
    contexts = [("value", "%s", {}), ("value", "[%s {a: %s}]", {}),
                ("document", '{ a(x: %s) @d(y: %s) }', {}),
                ("document", '%s type A { %s f(%s a: String = %s): T }', {"allow_type_system": True}),
                ("document", "query ($v: S = %s) { a }", {"no_location": True})]
    if ctx.shard % max(1, ctx.nshards // 2) == 0:
        for s in string_corpus(ctx):
            for entry, tmpl, flags in contexts:
                text = tmpl % ((s,) * tmpl.count("%s"))
                lib, ref, tree = mon.observe(entry, text, flags, "string-corpus")
                if lib == ref == "accept":
                    ctx.mark_nontrivial([entry, sorted(flags.items()), text])
                    ctx.sample("string-corpus", {"entry": entry, "text": text[:120]})

    for entry, text, flags, cls, as_bytes, vbc in lang_workload(ctx, ctx.n(900), ctx.n(1500), 3):
        lib, ref, tree = mon.observe(entry, text, flags, cls, as_bytes, vbc)
        if lib == ref == "accept":
            nn = count_nodes(tree.to_dict())
            if nn >= 5 or '\\' in text or '"""' in text:
                ctx.mark_nontrivial([entry, sorted(flags.items()), text])
            ctx.sample("accepted:" + cls.split(":")[0], {"entry": entry, "text": text[:160], "flags": flags, "nodes": nn})
    ctx.require("trees_compared", 200)
    ctx.require("parse_block_string_calls", 50)
    ctx.require("spans_reparsed", 100)


def replay(ctx, key, w):
    mon = ParseMonitor(ctx, check_trees=True, check_errors=False)
    if "text" in w:
        mon.observe(w["entry"], w["text"], w["flags"], w.get("class", "replay"), w.get("bytes", False), False)
    elif "raw" in w:
        from py_gql import _string_utils as SU

        if SU.parse_block_string(w["raw"]) != reflang.block_string_value(w["raw"]):
            ctx.violation(key, w, "reproduced")
