# -*- coding: utf-8 -*-
"""C15 Introspection reports exactly the schema."""
import asyncio
import collections
import json

from ..gen import schemair as S
from ..gen.schemair import EnumLit
from ..mon import exec_mon
from ..ref import refcoerce

RULE = (
    "for generated code-built schemas (a third of the types instances of trivial subclasses of the "
    "library's classes; coded enums, defaults of enum / quoted string / list / input "
    "object / float / boolean / null kind, deprecations, abstract types, custom directives) the "
    "standard introspection_query() answer and focused __type(name:) queries (includeDeprecated "
    "true / false / default), alone and mixed with ordinary fields, under the blocking, generic, "
    "thread-pool and asyncio configurations are compared with a rendering of the schema IR "
    "(R-INTROSPECT): kinds, names, descriptions, fields / arguments / input fields / enum values in "
    "declaration order, interfaces and possible types as sets, directives, roots, deprecation flags "
    "and reasons; every reported defaultValue must parse with parse_value and coerce (R-COERCE) to "
    "the declared default; with disable_introspection=True nothing may be visible (meta fields plain "
    "and aliased, the aliased standard query) and ordinary fields - also under a '__' alias - must be "
    "unaffected. "
    "Half of the schemas carry an application-wide default resolver that only knows application "
    "objects; after all queries the same schema object is modified in place (a member of an "
    "abstract type hidden) and introspected again; directive locations cover the whole list incl. "
    "VARIABLE_DEFINITION.  "
    "Non-trivial = distinct (schema, query, configuration) for a schema "
    "with >= 1 default value, deprecation or abstract type."
)
ASSUMPTIONS = ["R-INTROSPECT renders the IR by the specification's introspection schema"]

KIND = {"object": "OBJECT", "interface": "INTERFACE", "union": "UNION", "enum": "ENUM", "input": "INPUT_OBJECT",
        "scalar": "SCALAR"}


def type_ref(ir, t):
    if t[0] == "nonnull":
        return {"kind": "NON_NULL", "name": None, "ofType": type_ref(ir, t[1])}
    if t[0] == "list":
        return {"kind": "LIST", "name": None, "ofType": type_ref(ir, t[1])}
    return {"kind": KIND[ir.kind(t[1])], "name": t[1], "ofType": None}


def strip_typeref(d):
    """Library answers carry ofType chains to depth 7; cut the model's trailing None the same way."""
    return d


def ast_to_ir(node):
    from py_gql.lang import ast as A

    if isinstance(node, A.NullValue):
        return None
    if isinstance(node, A.IntValue):
        return int(node.value)
    if isinstance(node, A.FloatValue):
        return float(node.value)
    if isinstance(node, A.StringValue):
        return node.value
    if isinstance(node, A.BooleanValue):
        return node.value
    if isinstance(node, A.EnumValue):
        return EnumLit(node.value)
    if isinstance(node, A.ListValue):
        return [ast_to_ir(x) for x in node.values]
    if isinstance(node, A.ObjectValue):
        return collections.OrderedDict((f.name.value, ast_to_ir(f.value)) for f in node.fields)
    raise ValueError(type(node).__name__)


def numbers_as_text(ir, t, node):
    """Like ast_to_ir, but number literals at transparent custom scalar positions stay what such a scalar makes
    of them: their text."""
    from py_gql.lang import ast as A

    if t[0] == "nonnull":
        return numbers_as_text(ir, t[1], node)
    if t[0] == "list":
        if isinstance(node, A.ListValue):
            return [numbers_as_text(ir, t[1], x) for x in node.values]
        return numbers_as_text(ir, t[1], node)
    st = ir.types.get(t[1])
    if st is not None and st.kind == "scalar" and not st.strict and isinstance(node, (A.IntValue, A.FloatValue)):
        return node.value
    if st is not None and st.kind == "input" and isinstance(node, A.ObjectValue):
        types = dict((f.name, f.type) for f in st.input_fields)
        return collections.OrderedDict((f.name.value, numbers_as_text(ir, types[f.name.value], f.value) if f.name.value in types
                                        else ast_to_ir(f.value)) for f in node.fields)
    return ast_to_ir(node)


def same(a, b):
    if type(a) != type(b):
        if isinstance(a, (int, float)) and isinstance(b, (int, float)) and not isinstance(a, bool) and not isinstance(b, bool):
            return float(a) == float(b)
        return False
    if isinstance(a, dict):
        return set(a) == set(b) and all(same(a[k], b[k]) for k in a)
    if isinstance(a, (list, tuple)):
        return len(a) == len(b) and all(same(x, y) for x, y in zip(a, b))
    return a == b


def check_default(ctx, ir, a, reported, witness, where):
    from py_gql.lang.parser import parse_value

    ctx.count("defaults_checked")
    if not a.has_default:
        if reported is not None:
            ctx.violation("default:reported-for-input-without-default", witness, "%s -> %r" % (where, reported))
        return
    kind = default_kind(ir, a)
    ctx.count("default_kind:" + kind)
    if not isinstance(reported, str):
        ctx.violation("default:missing", witness, "%s declared %r reported %r" % (where, a.default, reported))
        return
    try:
        node = parse_value(reported)
    except Exception as e:
        ctx.violation("default:not-graphql-syntax:%s" % kind, witness, "%s reported %r (%s)" % (where, reported, type(e).__name__))
        return
    try:
        value = ast_to_ir(node)
    except ValueError:
        ctx.violation("default:not-a-constant:%s" % kind, witness, "%s reported %r" % (where, reported))
        return
    st1, got = refcoerce.coerce_literal(ir, a.type, value)
    st2, want = refcoerce.coerce_literal(ir, a.type, a.default)
    if st2 != "ok":
        return
    if st1 != "ok" or not same(got, want):
        from ..ref import canon

        # a transparent custom scalar reads a number literal as its text
        st3, got3 = refcoerce.coerce_literal(ir, a.type, numbers_as_text(ir, a.type, node))
        if st3 == "ok" and same(got3, want):
            ctx.count("defaults_with_number_literal_for_custom_scalar_string")
            return
        nl = canon.numberlike_scalar_strings(ir)
        if nl and st3 == "ok" and same(got3, canon.respell(want, nl)):
            # known finding: number-like strings of custom scalars are reported as (respelled) number literals
            ctx.violation("default:number-like-string-of-custom-scalar-reported-as-number", witness,
                          "%s reported %r declared %r" % (where, reported, want))
            return
        ctx.violation("default:differs:%s" % kind, witness, "%s reported %r -> %r declared %r" % (where, reported, got if st1 == "ok" else st1, want))


def default_kind(ir, a):
    v = a.default
    base = S.unwrap(a.type)
    if v is None:
        return "null"
    if isinstance(v, list):
        return "list"
    if isinstance(v, dict):
        return "input-object"
    if isinstance(v, EnumLit):
        return "enum"
    if isinstance(v, bool):
        return "boolean"
    if isinstance(v, str):
        return "string-special" if any(c in v for c in '"\\\n') or any(ord(c) < 0x20 for c in v) else "string"
    if isinstance(v, float):
        return "float"
    return "int"


def check_input_values(ctx, ir, declared, reported, witness, where):
    names = [x.get("name") for x in reported]
    if names != [a.name for a in declared]:
        ctx.violation("members:input-values", witness, "%s reported %r declared %r" % (where, names, [a.name for a in declared]))
        return
    for a, r in zip(declared, reported):
        if "description" in r and r["description"] != a.description:
            ctx.violation("description:input-value", witness, "%s.%s" % (where, a.name))
        if r["type"] != cut(type_ref(ir, a.type), r["type"]):
            ctx.violation("type-ref:input-value", witness, "%s.%s reported %r" % (where, a.name, r["type"]))
        check_default(ctx, ir, a, r.get("defaultValue"), witness, "%s.%s" % (where, a.name))


# how many ofType levels the query in use selects below a type reference (set by the caller):
# the standard query's TypeRef fragment goes 7 levels deep, the focused query 3
OFTYPE_LEVELS = [7]


def cut(model, reported, level=0):
    """Below the deepest level the query selects the answer has no ofType key; anywhere above it does."""
    if isinstance(reported, dict) and "ofType" not in reported and isinstance(model, dict) and level >= OFTYPE_LEVELS[0]:
        m = dict(model)
        m.pop("ofType", None)
        return m
    if isinstance(model, dict) and isinstance(reported, dict) and model.get("ofType") is not None:
        m = dict(model)
        m["ofType"] = cut(model["ofType"], reported.get("ofType"), level + 1)
        return m
    return model


def check_fields(ctx, ir, st, reported, include_deprecated, witness):
    declared = [f for f in st.fields if include_deprecated or f.deprecation is None]
    if reported is None:
        ctx.violation("members:fields-null", witness, st.name)
        return
    names = [f["name"] for f in reported]
    if names != [f.name for f in declared]:
        hidden = [f.name for f in st.fields if f.deprecation is not None]
        key = "deprecated-visibility:fields" if set(names) ^ set(f.name for f in declared) <= set(hidden) else "members:fields"
        ctx.violation(key, witness, "%s reported %r expected %r" % (st.name, names, [f.name for f in declared]))
        return
    for f, r in zip(declared, reported):
        ctx.count("fields_compared")
        if "description" in r and r["description"] != f.description:
            ctx.violation("description:field", witness, "%s.%s" % (st.name, f.name))
        if "type" in r and r["type"] != cut(type_ref(ir, f.type), r["type"]):
            ctx.violation("type-ref:field", witness, "%s.%s reported %r" % (st.name, f.name, r["type"]))
        if "isDeprecated" in r and (r["isDeprecated"] != (f.deprecation is not None) or r["deprecationReason"] != f.deprecation):
            ctx.violation("deprecation:field", witness, "%s.%s reported %r/%r declared %r" % (st.name, f.name, r["isDeprecated"], r["deprecationReason"], f.deprecation))
        if "args" in r:
            check_input_values(ctx, ir, f.args, r["args"], witness, "%s.%s" % (st.name, f.name))


def check_type(ctx, ir, st, r, include_deprecated, witness):
    ctx.count("types_compared")
    ctx.count("type_kind:" + st.kind)
    if r.get("kind") != KIND[st.kind]:
        ctx.violation("kind", witness, "%s reported %r" % (st.name, r.get("kind")))
        return
    if "description" in r and r["description"] != st.description:
        ctx.violation("description:type", witness, "%s reported %r declared %r" % (st.name, r["description"], st.description))
    if "fields" in r:
        if st.kind in ("object", "interface"):
            check_fields(ctx, ir, st, r["fields"], include_deprecated, witness)
        elif r["fields"] is not None:
            ctx.violation("members:fields-on-%s" % st.kind, witness, st.name)
    if "inputFields" in r:
        if st.kind == "input":
            if r["inputFields"] is None:
                ctx.violation("members:inputFields-null", witness, st.name)
            else:
                check_input_values(ctx, ir, st.input_fields, r["inputFields"], witness, st.name)
        elif r["inputFields"] is not None:
            ctx.violation("members:inputFields-on-%s" % st.kind, witness, st.name)
    if "interfaces" in r:
        if st.kind == "object":
            got = sorted(x["name"] for x in (r["interfaces"] or []))
            if r["interfaces"] is None or got != sorted(st.interfaces):
                ctx.violation("members:interfaces", witness, "%s reported %r declared %r" % (st.name, got, st.interfaces))
        elif r["interfaces"] is not None:
            ctx.violation("members:interfaces-on-%s" % st.kind, witness, st.name)
    if "possibleTypes" in r:
        if st.kind in ("interface", "union"):
            got = sorted(x["name"] for x in (r["possibleTypes"] or []))
            if r["possibleTypes"] is None or got != sorted(ir.possible_types(st.name)):
                ctx.violation("members:possibleTypes", witness, "%s reported %r expected %r" % (st.name, got, sorted(ir.possible_types(st.name))))
        elif r["possibleTypes"] is not None:
            ctx.violation("members:possibleTypes-on-%s" % st.kind, witness, st.name)
    if "enumValues" in r:
        if st.kind == "enum":
            declared = [v for v in st.values if include_deprecated or v.deprecation is None]
            got = [x["name"] for x in (r["enumValues"] or [])]
            if r["enumValues"] is None or got != [v.name for v in declared]:
                hidden = [v.name for v in st.values if v.deprecation is not None]
                key = "deprecated-visibility:enumValues" if set(got) ^ set(v.name for v in declared) <= set(hidden) else "members:enumValues"
                ctx.violation(key, witness, "%s reported %r expected %r" % (st.name, got, [v.name for v in declared]))
            else:
                for v, x in zip(declared, r["enumValues"]):
                    if "description" in x and x["description"] != v.description:
                        ctx.violation("description:enum-value", witness, "%s.%s" % (st.name, v.name))
                    if "isDeprecated" in x and (x["isDeprecated"] != (v.deprecation is not None) or x["deprecationReason"] != v.deprecation):
                        ctx.violation("deprecation:enum-value", witness, "%s.%s" % (st.name, v.name))
        elif r["enumValues"] is not None:
            ctx.violation("members:enumValues-on-%s" % st.kind, witness, st.name)


def check_schema_answer(ctx, ir, data, witness):
    sch = data.get("__schema")
    if not isinstance(sch, dict):
        ctx.violation("schema:missing", witness, repr(data)[:100])
        return
    for op, name in (("queryType", ir.query), ("mutationType", ir.mutation), ("subscriptionType", ir.subscription)):
        got = sch.get(op)
        if (got or {}).get("name") != name if name else got is not None:
            ctx.violation("roots", witness, "%s reported %r declared %r" % (op, got, name))
    reported = dict((t["name"], t) for t in sch["types"])
    names = set(n for n in reported if not n.startswith("__") and n not in S.BUILTIN_SCALARS)
    if names != set(ir.types):
        ctx.violation("types:set-differs", witness, "missing %r extra %r" % (sorted(set(ir.types) - names), sorted(names - set(ir.types))))
        return
    if len(sch["types"]) != len(reported):
        ctx.violation("types:duplicates", witness, "")
    for b in S.BUILTIN_SCALARS + ("__Schema", "__Type", "__Field", "__InputValue", "__EnumValue", "__Directive", "__TypeKind", "__DirectiveLocation"):
        if b not in reported and b in ("String", "Boolean", "__Schema", "__Type"):
            ctx.violation("types:builtin-missing", witness, b)
    for st in ir.types.values():
        check_type(ctx, ir, st, reported[st.name], True, witness)
    dirs = dict((d["name"], d) for d in sch["directives"])
    custom = set(dirs) - {"skip", "include", "deprecated"}
    if custom != set(ir.directives) or not {"skip", "include", "deprecated"} <= set(dirs):
        ctx.violation("directives:set-differs", witness, "reported %r declared %r" % (sorted(dirs), sorted(ir.directives)))
        return
    for d in ir.directives.values():
        r = dirs[d.name]
        ctx.count("directives_compared")
        if r.get("description") != d.description:
            ctx.violation("description:directive", witness, d.name)
        if r["locations"] != list(d.locations):
            ctx.violation("directive:locations", witness, "%s reported %r declared %r" % (d.name, r["locations"], d.locations))
        check_input_values(ctx, ir, d.args, r["args"], witness, "@" + d.name)


FOCUSED = """
query Focus { %(ordinary)s
  __type(name: "%(name)s") {
    kind name description
    fields%(dep)s { name isDeprecated deprecationReason type { kind name ofType { kind name ofType { kind name ofType { kind name } } } }
      args { name defaultValue type { kind name ofType { kind name ofType { kind name ofType { kind name } } } } } }
    enumValues%(dep)s { name isDeprecated deprecationReason description }
    inputFields { name defaultValue description type { kind name ofType { kind name ofType { kind name ofType { kind name } } } } }
    interfaces { name } possibleTypes { name }
  }
}
"""


def raises_key(e):
    if "VARIABLE_DEFINITION" in str(e) and "__DirectiveLocation" in str(e):
        return "introspection-raises:directive-location-VARIABLE_DEFINITION-unknown-to-introspection"
    return "introspection-raises:%s" % type(e).__name__


def issue(config, schema, text, root, **kw):
    import py_gql
    from py_gql.execution import Executor
    from py_gql.execution.runtime import AsyncIORuntime, ThreadPoolRuntime

    if config == "blocking":
        return py_gql.graphql_blocking(schema, text, root=root, **kw)
    if config == "generic":
        return py_gql.process_graphql_query(schema, text, executor_cls=Executor, root=root, **kw)
    if config == "threadpool":
        rt = ThreadPoolRuntime(max_workers=4)
        try:
            return py_gql.process_graphql_query(schema, text, runtime=rt, root=root, **kw).result(timeout=120)
        finally:
            rt._inner.shutdown(wait=True)
    loop = asyncio.new_event_loop()
    try:
        return loop.run_until_complete(py_gql.process_graphql_query(schema, text, runtime=AsyncIORuntime(loop=loop), root=root, **kw))
    finally:
        loop.close()


def rename_enum_value_in_place(ctx, rng, case, ir_now, root, issue, raises_key):
    import copy

    from py_gql.schema import EnumValue, SchemaVisitor
    from py_gql.utilities import introspection_query

    enums = [t for t in ir_now.types.values() if t.kind == "enum" and t.values]
    if not enums:
        return
    e = rng.choice(enums)
    old = rng.choice(e.values).name
    new = old + "_RENAMED"

    class Rename(SchemaVisitor):
        def on_enum_value(self, enum_value):
            if enum_value.name == old:
                return EnumValue(new, value=enum_value.value, description=enum_value.description,
                                 deprecation_reason=enum_value.deprecation_reason)
            return enum_value

    def ren(v):
        if isinstance(v, S.EnumLit):
            return S.EnumLit(new) if v.name == old else v
        if isinstance(v, list):
            return [ren(x) for x in v]
        if isinstance(v, dict):
            return type(v)((k, ren(x)) for k, x in v.items())
        return v

    ir3 = S.clone(ir_now)
    used = [0]

    def fix(inputs):
        for a in inputs:
            if a.has_default:
                nv = ren(a.default)
                if nv != a.default:
                    used[0] += 1
                a.default = nv

    for t in ir3.types.values():
        if t.kind == "enum":
            for v in t.values:
                if v.name == old:
                    v.name = new
        for f in t.fields:
            fix(f.args)
        fix(t.input_fields)
    for d in ir3.directives.values():
        fix(d.args)
    witness = {"schema_sdl": case.sdl, "enum_value_renamed_in_place": [old, new], "query": "introspection_query()"}
    ctx.evaluated()
    try:
        Rename().on_schema(case.schema)
        case.schema.validate()
    except Exception as exc:
        ctx.count("in_place_rename_refused:%s" % type(exc).__name__)
        return
    ctx.count("in_place_enum_value_renames")
    if used[0]:
        ctx.count("in_place_enum_value_renames_reaching_a_default")
    try:
        res = issue("blocking", case.schema, introspection_query(), root)
    except Exception as exc:
        k = raises_key(exc)
        ctx.violation(k if "VARIABLE_DEFINITION" in k else "after-in-place-rename:" + k, witness, repr(exc)[:300])
        return
    if res.errors or not isinstance(res.data, dict):
        ctx.violation("after-in-place-rename:introspection-errors", witness, repr([str(x) for x in res.errors])[:300])
        return
    check_schema_answer(ctx, ir3, res.data, witness)


def run(ctx):
    from py_gql.utilities import introspection_query

    rng = ctx.rng("cases")
    for ci in range(ctx.n(12)):
        case = exec_mon.Case(rng, "c15:%d:%d:%d" % (ctx.seed, ctx.shard, ci), world_kw={"p_error": 0.0, "p_null_in_nonnull": 0.0},
                             schema_kw={"features": {"variable_definition_location": True}})
        # make sure string defaults with quotes / backslashes / newlines occur
        ir = case.ir
        case.sdl = S.to_sdl(ir)[0]
        if ci % 2 == 1:
            # an application-wide default resolver that only knows the application's own objects
            from py_gql.execution.default_resolver import default_resolver as library_default
            from ..gen.world import LazyDict, LazyMapping, LazyObject

            def application_default(root, context, info, **args):
                if isinstance(root, (LazyDict, LazyMapping, LazyObject, dict)) or root is None:
                    return library_default(root, context, info, **args)
                raise TypeError("the application's default resolver was handed a %s" % type(root).__name__)

            case.schema.default_resolver = application_default
            ctx.count("schemas_with_application_default_resolver")
        interesting = any(a.has_default for t in ir.types.values() for f in t.fields for a in f.args) or \
            any(f.deprecation for t in ir.types.values() for f in t.fields) or any(t.kind in ("interface", "union") for t in ir.types.values())
        root = case.binding.root_value(ir.query)
        for config in ("blocking", "generic", "threadpool", "asyncio"):
            witness = {"schema_sdl": case.sdl, "config": config, "query": "introspection_query()"}
            ctx.evaluated()
            ctx.count("introspection_queries:" + config)
            if interesting:
                ctx.mark_nontrivial([case.sdl, "full", config])
            try:
                res = issue(config, case.schema, introspection_query(), root)
            except Exception as e:
                ctx.violation(raises_key(e), witness, repr(e)[:300])
                continue
            if res.errors or not isinstance(res.data, dict):
                ctx.violation("introspection-errors", witness, repr([str(e) for e in res.errors])[:300])
                continue
            check_schema_answer(ctx, ir, res.data, witness)
        # focused queries with includeDeprecated variants, mixed with an ordinary field
        q = ir.types[ir.query]
        plain = [f for f in q.fields if not f.args and ir.kind(S.unwrap(f.type)) in ("scalar", "enum")]
        ordinary = plain[0].name if plain else "__typename"
        baseline = None
        for st in rng.sample(list(ir.types.values()), min(6, len(ir.types))):
            for dep, flag in (("", False), ("(includeDeprecated: true)", True), ("(includeDeprecated: false)", False)):
                text = FOCUSED % {"name": st.name, "dep": dep if st.kind in ("object", "interface", "enum") or True else "", "ordinary": ordinary}
                config = rng.choice(["blocking", "generic", "threadpool", "asyncio"])
                witness = {"schema_sdl": case.sdl, "config": config, "query": text}
                ctx.evaluated()
                ctx.count("focused_queries")
                if interesting:
                    ctx.mark_nontrivial([case.sdl, text, config])
                try:
                    res = issue(config, case.schema, text, root)
                except Exception as e:
                    ctx.violation(raises_key(e), witness, repr(e)[:300])
                    continue
                if res.errors or not isinstance(res.data, dict):
                    ctx.violation("introspection-errors", witness, repr([str(e) for e in res.errors])[:300])
                    continue
                if res.data.get("__type") is None:
                    ctx.violation("type-lookup:null", witness, st.name)
                    continue
                OFTYPE_LEVELS[0] = 3
                try:
                    check_type(ctx, ir, st, res.data["__type"], flag, witness)
                finally:
                    OFTYPE_LEVELS[0] = 7
                if baseline is None:
                    baseline = res.data.get(ordinary)
                elif res.data.get(ordinary) != baseline:
                    ctx.violation("ordinary-field-disturbed", witness, "")
        # a name the schema does not have: `__type` is nullable, the answer is null and nothing else is disturbed
        for missing in rng.sample(["NoSuchType", "query", ir.query.lower(), "__Nope", "Int!", "", "[Int]"], 2):
            text = '{ __type(name: %s) { name kind } tn: __typename }' % json.dumps(missing)
            config = rng.choice(["blocking", "generic", "threadpool", "asyncio"])
            witness = {"schema_sdl": case.sdl, "config": config, "query": text}
            if missing in ir.types:
                continue
            ctx.evaluated()
            ctx.count("lookups_of_unknown_type_names")
            try:
                res = issue(config, case.schema, text, root)
            except Exception as e:
                ctx.violation("unknown-type-lookup:" + raises_key(e), witness, repr(e)[:300])
                continue
            if res.errors or not isinstance(res.data, dict) or res.data.get("__type", 0) is not None:
                ctx.violation("unknown-type-lookup:not-null", witness, repr(res.response())[:300])
        # disabled introspection
        aliased = '{ api: __schema { types { name } } t: __type(name: "%s") { name } tn: __typename %s }' % (ir.query, ordinary)
        reserved_alias = "{ __plain: %s }" % ordinary
        for text in (introspection_query(), FOCUSED % {"name": ir.query, "dep": "", "ordinary": ordinary},
                     "{ %s __typename }" % ordinary, aliased, reserved_alias,
                     introspection_query().replace("__schema {", "meta: __schema {", 1)):
            witness = {"schema_sdl": case.sdl, "query": text, "disable_introspection": True}
            ctx.evaluated()
            ctx.count("disabled_queries")
            try:
                import py_gql

                res = py_gql.process_graphql_query(case.schema, text, root=root, disable_introspection=True)
            except Exception as e:
                ctx.violation("disabled:raises:%s" % type(e).__name__, witness, repr(e)[:300])
                continue
            data = res.data if isinstance(res.data, dict) else {}
            leaked = [k for k in ("__schema", "__type", "__typename", "api", "t", "tn", "meta") if data.get(k) is not None]
            if leaked:
                ctx.violation("disabled:introspection-visible", witness, repr(leaked))
            if text is reserved_alias and ordinary != "__typename" and isinstance(res.data, dict):
                ctx.count("disabled_reserved_alias_queries")
                if baseline is not None and data.get("__plain") != baseline:
                    ctx.violation("disabled:ordinary-field-disturbed", witness, "alias __plain: %r vs %r" % (data.get("__plain"), baseline))
                continue
            if ordinary in text.split("__type")[0] and ordinary != "__typename" and isinstance(res.data, dict):
                if baseline is not None and data.get(ordinary) != baseline:
                    ctx.violation("disabled:ordinary-field-disturbed", witness, "%r vs %r" % (data.get(ordinary), baseline))
        # history: the schema object that has just answered all of the above is modified in place (a
        # member of an abstract type is hidden) and must then report exactly what it has become
        members = sorted(set(m for t in ir.types.values() if t.kind in ("interface", "union")
                             for m in ir.possible_types(t.name)) - set(n for _k, n in ir.roots()))
        # ... or a whole root operation type other than the query root is hidden
        members = members + sorted(set(n for k, n in ir.roots() if k != "query" and n != ir.query))
        current_ir = None if members else ir
        if members:
            from py_gql.schema.transforms import VisibilitySchemaTransform
            from .c14 import apply_visibility

            gone = rng.choice(members)
            if gone in (ir.mutation, ir.subscription):
                ctx.count("in_place_change_hides_a_root_type")

            class Hide(VisibilitySchemaTransform):
                def is_type_visible(self, name):
                    return name != gone

            witness = {"schema_sdl": case.sdl, "hidden_in_place": gone, "query": "introspection_query()"}
            ctx.evaluated()
            try:
                Hide().on_schema(case.schema)
                case.schema.validate()
            except Exception as e:
                ctx.count("in_place_change_refused:%s" % type(e).__name__)
            else:
                ctx.count("in_place_changes")
                ir2 = apply_visibility(ir, {gone}, set(), set(), set())
                try:
                    res = issue("blocking", case.schema, introspection_query(), root)
                except Exception as e:
                    k = raises_key(e)
                    ctx.violation(k if "VARIABLE_DEFINITION" in k else "after-in-place-change:" + k, witness, repr(e)[:300])
                else:
                    if res.errors or not isinstance(res.data, dict):
                        ctx.violation("after-in-place-change:introspection-errors", witness, repr([str(e) for e in res.errors])[:300])
                    else:
                        n0 = len(ctx.violations)
                        check_schema_answer(ctx, ir2, res.data, witness)
                        current_ir = ir2
        # ... and then an enum value is renamed in place (its python value stays, so every declared default stays what
        # it was): defaults that use it have to be reported under the new name, by the schema object that has
        # already answered under the old one
        if current_ir is not None:
            rename_enum_value_in_place(ctx, rng, case, current_ir, root, issue, raises_key)
        ctx.sample("schema", {"sdl": case.sdl[:400]})
    ctx.require("types_compared", 100)
    ctx.require("defaults_checked", 50)
    ctx.require("disabled_queries", 10)
    ctx.require("in_place_enum_value_renames_reaching_a_default", 3)
