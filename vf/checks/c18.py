# -*- coding: utf-8 -*-
"""C18 AST visitors reach every node once with balanced enter/leave; edits stay local."""
import copy

from ..gen import docgen, lexgen
from ..mon.parse_mon import fixtures, normalize

RULE = (
    "parsed executable and type-system documents (grammar-directed derivations incl. fragment "
    "variables, repository fixtures) are visited by recording visitors; the event log is checked "
    "offline against an independent source-ordered walk of the tree: exactly one enter and one leave "
    "per non-Name node, bracket nesting under the right parent, siblings in source order, no-op "
    "visit leaves to_dict() unchanged; random non-nested sets of visited nodes are deleted (list "
    "members), replaced or skipped and both the resulting tree (against the same edit applied "
    "directly on a second parse) and the event counts are compared; chains of 2-4 recording "
    "visitors, a generated DispatchingVisitor subclass and the three ast_transforms visitors are "
    "run the same way. "
    "Chains contain chains, a chain is reused after its visitors attribute was reassigned, and "
    "the base DispatchingVisitor is sometimes used before the recording subclass.  "
    "Non-trivial = distinct (text, mode) with >= 10 nodes or any edit/skip/chain case."
)
ASSUMPTIONS = ["source order of siblings is the order of their loc start offsets (parsed with locations)"]


class Info:
    __slots__ = ("node", "parent", "attr", "index", "path", "children", "kind")


def build_index(root):
    """Independent walk: every Node with parent/attr/path; children in source order."""
    from py_gql.lang import ast as A

    infos = {}
    order = []

    def rec(node, parent, attr, index, path):
        inf = Info()
        inf.node, inf.parent, inf.attr, inf.index, inf.path = node, parent, attr, index, path
        inf.kind = type(node).__name__
        inf.children = []
        infos[id(node)] = inf
        order.append(inf)
        kids = []
        for a in node._props():
            v = getattr(node, a)
            if isinstance(v, A.Node):
                kids.append((v, a, None))
            elif isinstance(v, list):
                for i, x in enumerate(v):
                    if isinstance(x, A.Node):
                        kids.append((x, a, i))
        kids.sort(key=lambda k: (k[0].loc[0] if k[0].loc else 0))
        for child, a, i in kids:
            inf.children.append(rec(child, inf, a, i, path + ((a, i),)))
        return inf

    rec(root, None, None, None, ())
    return infos, order


def make_recorder(base, log, tag, plan):
    from py_gql.lang.visitor import SkipNode

    class Rec(base):
        def enter(self, node):
            log.append(("enter", tag, node))
            act = plan.get(id(node))
            if act is None:
                return node
            if act[0] == "delete":
                return None
            if act[0] == "skip":
                raise SkipNode()
            return act[1]

        def leave(self, node):
            log.append(("leave", tag, node))

    return Rec()


def is_name(inf):
    return inf.kind == "Name"


def nearest_visited_ancestor(inf, visited):
    p = inf.parent
    while p is not None and id(p.node) not in visited:
        p = p.parent
    return p


def check_noop_log(ctx, infos, order, log, witness, prefix=""):
    """Offline checker over one visitor's event log of a no-op visit."""
    enters, leaves = {}, {}
    for ev, _tag, node in log:
        if id(node) not in infos:
            ctx.violation(prefix + "visited-foreign-node:%s" % type(node).__name__, witness, "")
            return None
        d = enters if ev == "enter" else leaves
        d[id(node)] = d.get(id(node), 0) + 1
    visited = set(enters)
    for inf in order:
        if is_name(inf):
            if id(inf.node) in visited:
                ctx.observe("name-node-visited")
            continue
        ctx.count("nodes_checked")
        pos = "%s.%s" % (inf.parent.kind, inf.attr) if inf.parent else "<root>"
        ctx.count("pos:" + pos)
        e, l = enters.get(id(inf.node), 0), leaves.get(id(inf.node), 0)
        if e == 0:
            par = inf.parent
            if par is None or id(par.node) in visited:  # report the topmost unvisited node only
                key = "unvisited:description" if inf.attr == "description" else "unvisited:%s" % pos
                ctx.violation(prefix + key, witness, "%s at %s never entered" % (inf.kind, pos))
            continue
        if e != 1 or l != 1:
            ctx.violation(prefix + "not-exactly-once:%s" % inf.kind, witness, "enter=%d leave=%d at %s" % (e, l, pos))
    # nesting
    stack = []
    entered_children = {}
    for ev, _tag, node in log:
        inf = infos[id(node)]
        if ev == "enter":
            want = nearest_visited_ancestor(inf, visited)
            top = stack[-1] if stack else None
            if (want.node if want else None) is not (top.node if top else None):
                ctx.violation(prefix + "nesting:wrong-parent:%s" % inf.kind, witness,
                              "entered under %s, expected %s" % (top.kind if top else None, want.kind if want else None))
                return visited
            if top is not None:
                entered_children.setdefault(id(top.node), []).append(inf)
            stack.append(inf)
        else:
            if not stack or stack[-1].node is not node:
                ctx.violation(prefix + "nesting:unbalanced-leave:%s" % inf.kind, witness, "")
                return visited
            stack.pop()
    if stack:
        ctx.violation(prefix + "nesting:missing-leave:%s" % stack[-1].kind, witness, "")
    # sibling order (source order by loc start)
    for pid, kids in entered_children.items():
        for a, b in zip(kids, kids[1:]):
            if a.node.loc and b.node.loc and a.node.loc[0] > b.node.loc[0]:
                par = infos[pid]

                def top_attr(x):
                    return x.path[len(par.path)][0]

                ctx.violation(prefix + "order:%s:%s-before-%s" % (par.kind, top_attr(a), top_attr(b)), witness,
                              "%s entered before %s although it comes later in the source" % (a.kind, b.kind))
                break
    return visited


def get_at(root, path):
    n = root
    for attr, idx in path:
        n = getattr(n, attr)
        if idx is not None:
            n = n[idx]
    return n


def make_replacement(node):
    r = copy.deepcopy(node)
    nm = getattr(r, "name", None)
    if nm is not None and hasattr(nm, "value") and isinstance(nm.value, str):
        nm.value = nm.value + "_r"
    elif type(r).__name__ in ("IntValue",):
        r.value = "424242"
    elif type(r).__name__ in ("EnumValue",):
        r.value = r.value + "_r"
    elif type(r).__name__ == "StringValue":
        r.value = r.value + " (replaced)"
    return r


def descendants(inf):
    out = []
    stack = list(inf.children)
    while stack:
        x = stack.pop()
        out.append(x)
        stack.extend(x.children)
    return out


def counts_by_path(log, infos_by_id):
    c = {}
    for ev, _tag, node in log:
        inf = infos_by_id.get(id(node))
        if inf is None:
            continue
        k = (inf.path, ev)
        c[k] = c.get(k, 0) + 1
    return c


def later_twins(order):
    """List members that have a structurally equal (==) sibling *before* them in the same list: with positions
    disabled `{ a b a }` holds two equal Field nodes; an edit aimed at the later one must not land on the earlier."""
    out = set()
    for inf in order:
        if inf.index is None or inf.parent is None or not inf.index:
            continue
        lst = getattr(inf.parent.node, inf.attr)
        if any(lst[j] == inf.node and lst[j] is not inf.node for j in range(inf.index)):
            out.add(id(inf.node))
    return out


def choose_edits(rng, order, visited, k, prefer=None):
    """Non-nested random set of visited nodes with actions."""
    cands = [inf for inf in order if id(inf.node) in visited and inf.parent is not None and not is_name(inf)]
    rng.shuffle(cands)
    if prefer:
        cands.sort(key=lambda inf: id(inf.node) not in prefer)
    chosen = []
    for inf in cands:
        if len(chosen) >= k:
            break
        if any(inf.path[:len(c.path)] == c.path or c.path[:len(inf.path)] == inf.path for c, _ in chosen):
            continue
        acts = ["replace", "skip"]
        if inf.index is not None:
            acts += ["delete", "delete"]
        if prefer and id(inf.node) in prefer:
            acts = ["replace", "delete"]
        chosen.append((inf, rng.choice(acts)))
    return chosen


def apply_reference_edits(root2, edits, repl_by_path):
    """The same edits applied directly on a second parse of the same text (targets are
    resolved before anything is mutated, then edited by identity)."""
    resolved = []
    for inf, act in edits:
        parent = get_at(root2, inf.path[:-1])
        attr, idx = inf.path[-1]
        target = getattr(parent, attr) if idx is None else getattr(parent, attr)[idx]
        resolved.append((parent, attr, idx, target, inf, act))
    for parent, attr, idx, target, inf, act in resolved:
        if act == "replace":
            r = copy.deepcopy(repl_by_path[inf.path])
            if idx is None:
                setattr(parent, attr, r)
            else:
                lst = getattr(parent, attr)
                lst[[i for i, x in enumerate(lst) if x is target][0]] = r
        elif act == "delete":
            lst = getattr(parent, attr)
            del lst[[i for i, x in enumerate(lst) if x is target][0]]


def run_edit_case(ctx, rng, parse_fn, text, flags, base_cls, chain=0, witness=None, twins=False):
    """One edit case on fresh parses. chain=0: single visitor; chain=k: the editing visitor sits at a
    random position of a ChainedVisitor of k recorders."""
    from py_gql.lang.visitor import ASTVisitor, ChainedVisitor

    t0 = parse_fn(text, **flags)
    infos0, order0 = build_index(t0)
    log0 = []
    make_recorder(ASTVisitor, log0, 0, {}).visit(t0)
    visited0 = set(id(n) for ev, _t, n in log0 if ev == "enter")
    visited_paths = set(infos0[i].path for i in visited0)
    noop_counts = counts_by_path(log0, infos0)

    t1 = parse_fn(text, **flags)
    infos1, order1 = build_index(t1)
    visited1 = set(id(inf.node) for inf in order1 if inf.path in visited_paths)
    prefer = later_twins(order1) & visited1 if twins else None
    edits = choose_edits(rng, order1, visited1, rng.randint(1, 3), prefer)
    if not edits:
        return
    if prefer and any(id(inf.node) in prefer for inf, _a in edits):
        ctx.count("edit_cases_aimed_at_the_later_of_two_equal_siblings")
    plan, repl_by_path = {}, {}
    for inf, act in edits:
        if act == "replace":
            r = make_replacement(inf.node)
            repl_by_path[inf.path] = r
            plan[id(inf.node)] = ("replace", r)
        else:
            plan[id(inf.node)] = (act,)
    desc = [{"path": [list(p) for p in inf.path], "kind": inf.kind, "action": act} for inf, act in edits]
    w = dict(witness or {}, text=text, flags=flags, edits=desc, chain=chain)
    ctx.evaluated()
    ctx.mark_nontrivial([text, desc, chain])
    for inf, act in edits:
        ctx.count("edit:%s" % act)
        ctx.count("edit_pos:%s.%s" % (inf.parent.kind, inf.attr))

    log1 = []
    if chain:
        pos = rng.randrange(chain)
        visitors = [make_recorder(ASTVisitor, log1, i, plan if i == pos else {}) for i in range(chain)]
        visitor = ChainedVisitor(*visitors)
        w["editing_visitor"] = pos
    else:
        visitor = make_recorder(base_cls, log1, 0, plan)
    try:
        visitor.visit(t1)
    except Exception as e:
        ctx.violation("edit:visit-raises:%s" % type(e).__name__, w, repr(e))
        return

    # expected tree
    t2 = parse_fn(text, **flags)
    apply_reference_edits(t2, edits, repl_by_path)
    got, exp = normalize(t1.to_dict()), normalize(t2.to_dict())
    prefix = "chained:" if chain else ""
    if got != exp:
        # attribute to the first edit that was not applied
        for inf, act in edits:
            parent = get_at(t1, inf.path[:-1])
            attr, idx = inf.path[-1]
            cur = getattr(parent, attr)
            applied = True
            if act == "delete":
                applied = not any(x is inf.node for x in cur)
            elif act == "replace":
                tgt = cur if idx is None else (cur[idx] if idx < len(cur) else None)
                # with deletions before it in the same list the index may have shifted
                applied = tgt is repl_by_path[inf.path] or (idx is not None and any(x is repl_by_path[inf.path] for x in cur))
            elif act == "skip":
                applied = True
            if not applied:
                if chain:
                    # ChainedVisitor.enter returns the node it was given whatever its children return
                    ctx.violation("chained:edit-ignored:%s" % act, w, "%s.%s" % (inf.parent.kind, inf.attr))
                else:
                    ctx.violation("edit:%s-not-applied:%s.%s" % (act, inf.parent.kind, inf.attr), w, "")
                return
        ctx.violation(prefix + "edit:tree-differs", w, "edits applied but trees differ")
        return

    if chain:
        ctx.count("chained_edit_cases_ok")
        return
    # events: edited nodes and their descendants; everything else as in the no-op run
    enters, leaves = {}, {}
    for ev, _t, n in log1:
        d = enters if ev == "enter" else leaves
        d[id(n)] = d.get(id(n), 0) + 1
    edited_paths = []
    for inf, act in edits:
        e, l = enters.get(id(inf.node), 0), leaves.get(id(inf.node), 0)
        if e != 1 or l != 0:
            ctx.violation("edit:events:%s-node enter=%d leave=%d" % (act, e, l), w, inf.kind)
            return
        for dsc in descendants(inf):
            if enters.get(id(dsc.node), 0) or leaves.get(id(dsc.node), 0):
                ctx.violation("edit:events:%s-descendant-visited" % act, w, dsc.kind)
                return
        if act == "replace":
            r = repl_by_path[inf.path]
            if leaves.get(id(r), 0) != 1 or enters.get(id(r), 0) != 0:
                ctx.violation("edit:events:replacement enter=%d leave=%d" % (enters.get(id(r), 0), leaves.get(id(r), 0)), w, inf.kind)
                return
            # descendants of the replacement follow the no-op pattern of the original's descendants
            rinfos, rorder = build_index(r)
            for rinf in rorder[1:]:
                if rinf.kind == "Name":
                    continue
                full = inf.path + rinf.path
                for ev, d in (("enter", enters), ("leave", leaves)):
                    if d.get(id(rinf.node), 0) != noop_counts.get((full, ev), 0):
                        ctx.violation("edit:events:replacement-descendant-%s" % ev, w, rinf.kind)
                        return
        edited_paths.append(inf.path)
    # untouched nodes: identical counts to the no-op run (paths after a deleted list member shift
    # in the *final* tree but the event log refers to original nodes, so original paths are stable)
    cur = counts_by_path(log1, infos1)
    for inf in order1:
        if any(inf.path[:len(p)] == p for p in edited_paths):
            continue
        for ev in ("enter", "leave"):
            if cur.get((inf.path, ev), 0) != noop_counts.get((inf.path, ev), 0):
                ctx.violation("edit:events:untouched-node-%s-count-changed" % ev, w,
                              "%s at %r: %d vs %d" % (inf.kind, inf.path, cur.get((inf.path, ev), 0), noop_counts.get((inf.path, ev), 0)))
                return
    ctx.count("edit_cases_ok")


def snake(name):
    out = []
    for i, c in enumerate(name):
        if c.isupper() and i:
            out.append("_")
        out.append(c.lower())
    return "".join(out)


def make_dispatching(log):
    from py_gql.lang.visitor import DispatchingVisitor

    ns = {}

    def mk(kind, name):
        if kind == "enter":
            def fn(self, node):
                log.append(("enter", name, node))
                return node
        else:
            def fn(self, node):
                log.append(("leave", name, node))
        return fn

    for attr in dir(DispatchingVisitor):
        if attr.startswith("enter_"):
            ns[attr] = mk("enter", attr[len("enter_"):])
        elif attr.startswith("leave_"):
            ns[attr] = mk("leave", attr[len("leave_"):])
    return type("RecDispatch", (DispatchingVisitor,), ns)()


def shared_child_lists(root):
    """Mutable child lists that two different (node, attribute) slots hold in common: an in-place edit of one
    node would show up in the other."""
    from py_gql.lang import ast as A

    owners = {}
    shared = []
    seen_nodes = set()

    def rec(node, path):
        if id(node) in seen_nodes:
            return
        seen_nodes.add(id(node))
        for a in node._props():
            v = getattr(node, a)
            if isinstance(v, list):
                slot = (path, a)
                if id(v) in owners and owners[id(v)] != slot:
                    shared.append((owners[id(v)], slot))
                owners.setdefault(id(v), slot)
                for i, x in enumerate(v):
                    if isinstance(x, A.Node):
                        rec(x, path + ((a, i),))
            elif isinstance(v, A.Node):
                rec(v, path + ((a, None),))

    rec(root, ())
    return shared, owners


_LISTS_OF_EARLIER_DOCUMENTS = {}


def check_document(ctx, rng, parse_fn, text, flags, cls):
    from py_gql.lang.visitor import ASTVisitor, ChainedVisitor
    from py_gql.utilities import ast_transforms as T

    witness = {"text": text, "flags": flags, "class": cls}
    tree = parse_fn(text, **flags)
    infos, order = build_index(tree)
    nn = sum(1 for i in order if not is_name(i))
    before = normalize(tree.to_dict())

    # A. plain no-op visit
    log = []
    ctx.evaluated()
    ctx.count("noop_visits")
    ret = make_recorder(ASTVisitor, log, 0, {}).visit(tree)
    if ret is not tree:
        ctx.violation("noop:returns-other-node", witness, "")
    if normalize(tree.to_dict()) != before:
        ctx.violation("noop:document-changed", witness, "")
    # edits stay local only if nodes do not share their (mutable) child lists, neither inside the visited
    # document nor with a document visited earlier in this process
    shared_before = shared_child_lists(parse_fn(text, **flags))[0]
    shared_after, owners = shared_child_lists(tree)
    ctx.count("child_lists_checked_for_sharing", len(owners))
    if shared_after and not shared_before:
        ctx.violation("aliasing:child-list-shared-between-nodes-after-visit", witness, repr(shared_after[:2])[:300])
    else:
        earlier = [k for k in owners if k in _LISTS_OF_EARLIER_DOCUMENTS]
        if earlier:
            ctx.violation("aliasing:child-list-shared-with-an-earlier-document-after-visit", witness,
                          "%r / %r" % (owners[earlier[0]], _LISTS_OF_EARLIER_DOCUMENTS[earlier[0]][0]))
    if len(_LISTS_OF_EARLIER_DOCUMENTS) < 20000:
        for k, slot in owners.items():
            _LISTS_OF_EARLIER_DOCUMENTS[k] = (slot, tree)       # the tree is kept alive so that ids stay unique
    visited = check_noop_log(ctx, infos, order, log, witness)
    if nn >= 10:
        ctx.mark_nontrivial([text, "noop"])
    ctx.sample("noop:" + cls, {"text": text[:160], "nodes": nn, "events": len(log)})

    # C. chained no-op
    k = rng.randint(2, 4)
    tree_c = parse_fn(text, **flags)
    infos_c, order_c = build_index(tree_c)
    logc = []
    recorders = [make_recorder(ASTVisitor, logc, i, {}) for i in range(k)]
    # chains may contain chains: the order of the flattened sequence is what counts
    members, i = [], 0
    while i < k:
        n = rng.randint(1, k - i)
        if n >= 2 and rng.random() < 0.5:
            members.append(ChainedVisitor(*recorders[i:i + n]))
            ctx.count("nested_chains")
        else:
            n = 1
            members.append(recorders[i])
        i += n
    chain = ChainedVisitor(*members)
    chain.visit(tree_c)
    ctx.evaluated()
    ctx.count("chained_visits")
    ctx.mark_nontrivial([text, "chain", k])
    if normalize(tree_c.to_dict()) != before:
        ctx.violation("chained:noop-document-changed", witness, "")
    i = 0
    ok = True
    # events come in groups: k enters (tags 0..k-1) then later k leaves (tags k-1..0) per node
    pos = 0
    while pos < len(logc) and ok:
        ev, tag, node = logc[pos]
        group = logc[pos:pos + k]
        tags = [g[1] for g in group]
        same = all(g[2] is node and g[0] == ev for g in group)
        want = list(range(k)) if ev == "enter" else list(range(k - 1, -1, -1))
        if len(group) != k or not same or tags != want:
            ctx.violation("chained:%s-order" % ev, dict(witness, chain=k), "tags %r for %s" % (tags, type(node).__name__))
            ok = False
        pos += k
    if ok:
        first = [(ev, infos_c[id(n)].path) for ev, tag, n in logc if tag == 0 and id(n) in infos_c]
        plain = [(ev, infos[id(n)].path) for ev, _t, n in log if id(n) in infos]
        if first != plain:
            ctx.violation("chained:events-differ-from-plain-visitor", dict(witness, chain=k),
                          "%d vs %d events" % (len(first), len(plain)))
        else:
            ctx.count("chained_visits_ok")

    # C'. the same chain object with its (documented) visitors attribute reassigned, used once more
    if ok and rng.random() < 0.4:
        order2 = list(range(k))
        rng.shuffle(order2)
        if rng.random() < 0.5 and k > 2:
            order2 = order2[:-1]
        chain.visitors = [recorders[i] for i in order2]
        del logc[:]
        chain.visit(parse_fn(text, **flags))
        ctx.evaluated()
        ctx.count("chained_visits_after_reassigning_visitors")
        k2, pos = len(order2), 0
        while pos < len(logc):
            ev, tag, node = logc[pos]
            group = logc[pos:pos + k2]
            tags = [g[1] for g in group]
            want = order2 if ev == "enter" else list(reversed(order2))
            if len(group) != k2 or tags != want or not all(g[2] is node and g[0] == ev for g in group):
                ctx.violation("chained:%s-order-after-reassigning-visitors" % ev, dict(witness, chain=order2),
                              "tags %r expected %r for %s" % (tags, want, type(node).__name__))
                break
            pos += k2

    # D. dispatching visitor: right method per kind, same coverage as the plain visitor
    tree_d = parse_fn(text, **flags)
    infos_d, order_d = build_index(tree_d)
    logd = []
    if rng.random() < 0.3:
        # history: the base class (which dispatches to no-ops) has been used in this process before
        from py_gql.lang.visitor import DispatchingVisitor

        DispatchingVisitor().visit(parse_fn(text, **flags))
        ctx.count("bare_dispatching_visits")
    make_dispatching(logd).visit(tree_d)
    ctx.evaluated()
    ctx.count("dispatching_visits")
    for ev, name, node in logd:
        if snake(type(node).__name__) != name:
            ctx.violation("dispatch:wrong-method", witness, "%s_%s called for %s" % (ev, name, type(node).__name__))
            break
    a = [(ev, infos[id(n)].path) for ev, _t, n in log]
    b = [(ev, infos_d[id(n)].path) for ev, _t, n in logd if id(n) in infos_d]
    if a != b:
        ctx.violation("dispatch:events-differ-from-plain-visitor", witness, "%d vs %d events" % (len(a), len(b)))

    # B. edits (single visitor, dispatching visitor, chained)
    if visited:
        for _ in range(2):
            run_edit_case(ctx, rng, parse_fn, text, flags, ASTVisitor, witness={"class": cls})
        run_edit_case(ctx, rng, parse_fn, text, flags, ASTVisitor, chain=rng.randint(2, 3), witness={"class": cls})

    # E. ast_transforms
    from py_gql.lang import ast as A
    from py_gql._string_utils import camelcase_to_snakecase, snakecase_to_camelcase

    for vcls, fn in ((T.RemoveFieldAliasesVisitor, None), (T.CamelCaseToSnakeCaseVisitor, camelcase_to_snakecase),
                     (T.SnakeCaseToCamelCaseVisitor, snakecase_to_camelcase)):
        t_a = parse_fn(text, **flags)
        t_b = parse_fn(text, **flags)
        n_fields = 0
        try:
            for inf in build_index(t_b)[1]:
                if isinstance(inf.node, A.Field):
                    n_fields += 1
                    if fn is None:
                        inf.node.alias = None
                    else:
                        inf.node.name.value = fn(inf.node.name.value)
        except Exception as e:
            ctx.violation("transform:%s-helper-raises-%s" % (vcls.__name__, type(e).__name__), witness, repr(e))
            continue
        try:
            vcls().visit(t_a)
        except Exception as e:
            ctx.violation("transform:%s-raises-%s" % (vcls.__name__, type(e).__name__), witness, repr(e))
            continue
        ctx.evaluated()
        ctx.count("transform_visits")
        ctx.count("transform_fields", n_fields)
        if normalize(t_a.to_dict()) != normalize(t_b.to_dict()):
            ctx.violation("transform:%s-differs-from-direct-edit" % vcls.__name__, witness, "")
        # a shipped transform is a visitor like any other: chained between two recorders it must not keep them
        # from entering and leaving every node (it renames, it does not prune)
        from py_gql.lang.visitor import ASTVisitor, ChainedVisitor

        base_log, chain_log = [], []
        ChainedVisitor(make_recorder(ASTVisitor, base_log, 0, {}), make_recorder(ASTVisitor, base_log, 1, {})).visit(parse_fn(text, **flags))
        try:
            ChainedVisitor(make_recorder(ASTVisitor, chain_log, 0, {}), vcls(), make_recorder(ASTVisitor, chain_log, 1, {})).visit(parse_fn(text, **flags))
        except Exception as e:
            ctx.violation("transform:%s-in-a-chain-raises-%s" % (vcls.__name__, type(e).__name__), witness, repr(e))
            continue
        ctx.count("transform_chain_visits")
        shape = lambda log: [(ev, tag, type(node).__name__) for ev, tag, node in log if type(node).__name__ != "Name"]  # noqa: E731
        if shape(base_log) != shape(chain_log):
            a, b = shape(base_log), shape(chain_log)
            i = next((k for k, (x, y) in enumerate(zip(a, b)) if x != y), min(len(a), len(b)))
            ctx.violation("transform:%s-in-a-chain-changes-what-the-other-members-see" % vcls.__name__, witness,
                          "event %d: without the transform %r, with it %r" % (i, a[i:i + 2], b[i:i + 2]))


def run(ctx):
    from py_gql.exc import GraphQLSyntaxError
    from py_gql.lang import parse

    rng = ctx.rng("docs")
    if ctx.shard == 0:
        for fname, src in fixtures():
            flags = {"allow_type_system": True}
            try:
                parse(src, **flags)
            except GraphQLSyntaxError:
                continue
            if len(src) > 60000:
                src = src[: src.rfind("\n\n", 0, 40000)]
                try:
                    parse(src, **flags)
                except GraphQLSyntaxError:
                    continue
            check_document(ctx, rng, parse, src, flags, "fixture")
    for i in range(ctx.n(260)):
        start = rng.choice(["executable", "executable", "typesystem"])
        fragvars = rng.random() < 0.4
        toks, feats = docgen.gen_tokens(rng, start, fragment_variables=fragvars, hostile_strings=False)
        text = lexgen.render(rng, toks, "space")
        flags = {}
        if start == "typesystem":
            flags["allow_type_system"] = True
        if fragvars:
            flags["experimental_fragment_variables"] = True
        try:
            parse(text, **flags)
        except GraphQLSyntaxError as e:
            ctx.mark_inconclusive("generated document rejected: %r" % text[:100])
            continue
        check_document(ctx, rng, parse, text, flags, start)
    twin_cases(ctx, rng, parse)
    ctx.require("edit_cases_aimed_at_the_later_of_two_equal_siblings", 20)
    ctx.require("noop_visits", 20)
    ctx.require("edit_cases_ok", 20)
    ctx.require("chained_visits_ok", 20)
    ctx.require("nodes_checked", 500)


TWIN_TEXTS = [
    ("{ a b a }", {}),
    ("{ a { x y x } b a { x y x } c }", {}),
    ("{ f(x: 1, y: 2, x: 1) }", {}),
    ("{ f(x: [1, 2, 1, 3, 2]) g(o: {a: 1, b: 2, a: 1}) }", {}),
    ("query Q($a: Int = 1, $b: Int, $a: Int = 1) @d @e @d { a @d @e @d ...F ...G ...F ... on T { a } x ... on T { a } }", {}),
    ("fragment F on T { a } fragment G on T { b } fragment F on T { a } { a } { b } { a }", {}),
    ("enum E { A B A } union U = A | B | A type T implements I & J & I { f(x: Int, y: Int, x: Int): Int g: Int f(x: Int, y: Int, x: Int): Int }",
     {"allow_type_system": True}),
    ("input I { a: Int = 1 b: [Int] = [1, 1] a: Int = 1 } directive @d(a: Int, b: Int, a: Int) on FIELD | QUERY | FIELD "
     "schema { query: Q mutation: M query: Q } scalar S @a @b @a extend type T { a: Int b: Int a: Int }",
     {"allow_type_system": True}),
    ("fragment F($a: Int, $b: Int, $a: Int) on T { a b a }", {"experimental_fragment_variables": True}),
]


def twin_cases(ctx, rng, parse_fn):
    """Documents parsed without positions hold siblings that are equal (==) without being the same node."""
    from py_gql.lang.visitor import ASTVisitor, DispatchingVisitor

    for text, flags in TWIN_TEXTS:
        flags = dict(flags, no_location=True)
        for k in range(ctx.n(4)):
            chain = 0 if k % 4 != 3 else rng.randint(2, 3)
            base = DispatchingVisitor if k % 2 else ASTVisitor
            run_edit_case(ctx, rng, parse_fn, text, flags, base, chain=chain,
                          witness={"class": "equal siblings, positions disabled"}, twins=True)


def replay(ctx, key, w):
    from py_gql.lang import parse

    rng = ctx.rng("replay")
    for _ in range(10):
        check_document(ctx, rng, parse, w["text"], w["flags"], "replay")
