# -*- coding: utf-8 -*-
"""C08 Results do not depend on runtime, executor variant or completion order."""
import random
import sys
import threading
import time

from ..gen import opgen, schemair as S
from ..gen.world import Binding, Crash, CrashBase, World
from ..mon import exec_mon, sched
from ..ref import refexec

THOROUGH_SCALE = 3.0   # 16 shards; see DESIGN.md section 7

RULE = (
    "for generated schemas, worlds (values, nulls, nulls in non-null positions, ResolverError and, in a "
    "half of the cases, unexpected exceptions at arbitrary fields, drawn from a family that also "
    "derives from IndexError, KeyError, AttributeError, TypeError, ...) and valid operations (mutations "
    "forced in 40% of the requests), the same "
    "request is executed under graphql_blocking, the generic Executor on the blocking runtime, the "
    "thread-pool runtime and three asyncio set-ups (coroutine resolvers behind gates, synchronous "
    "resolvers shipped to the loop's executor, and a mix); the deferred runtimes run under a schedule "
    "controller that completes one in-flight resolver at a time: all completion orders are enumerated "
    "depth-first up to a bound, beyond it seeded random orders are sampled; a second exploration adds, "
    "for every pool submission, the choice that the task is already finished when submit() returns; "
    "every outcome is compared "
    "with the reference executor (ordered data, multiset of error paths), an unexpected exception must "
    "surface as that exception from every configuration and schedule, and when no task is left the "
    "result must be complete (stuck = violation). A stress mode runs a real 8-thread pool with seeded "
    "resolver latencies and sys.monitoring LINE yield injection inside runtime/threadpool.py, "
    "executor.py and wrappers.py. "
    "On the asyncio runtime the coroutine resolvers of a query's root selection set must all be suspended "
    "at the first quiescent point (pending together). "
    "A fifth of the resolvers hand their work to info.runtime.submit() and return what they get; "
    "every class of the unexpected-exception family gets its turn across cases and shards; "
    "arguments are occasionally named like parameters of library internals (func, self, fn, args, "
    "kwargs).  For queries whose reference result is clean, one coroutine resolver of the operation is made to "
    "raise asyncio.CancelledError after its gate opens (three completion orders): the request has to fail with it. "
    "Loader-style resolvers hand back exception instances as String values (values, never raised). "
    "One case per shard raises a BaseException that is no Exception. "
    "Non-trivial = distinct (request, configuration, schedule) with >= 2 "
    "deferred resolvers."
)
ASSUMPTIONS = [
    "R-EXEC is the specification's result; schedules are sequences of single task completions driven from one thread",
    "CPython 3.12 switches threads only at eval-breaker checks: yield injection is at statement (LINE) granularity",
]

CONFIGS = ["blocking", "generic", "threadpool", "asyncio-coroutines", "asyncio-executor", "asyncio-mixed"]


class DualCase(object):
    def __init__(self, rng, key, p_crash):
        self.ir = S.generate(rng, size=rng.choice([1, 2, 2, 3]))
        self.world = World(self.ir, key, p_crash=p_crash, p_error=0.08, p_null_in_nonnull=0.05)
        self.sync = Binding(self.world)
        self.asyn = Binding(self.world)
        r = random.Random("async:%s" % key)
        for t in self.ir.types.values():
            if t.kind == "object" and self.world.served_by(t.name) == "resolver":
                for f in t.fields:
                    if r.random() < 0.6:
                        self.asyn.async_fields.add((t.name, f.name))
                    if r.random() < 0.2:
                        # resolvers that pass their work on to runtime.submit() and return what they get
                        self.asyn.submit_fields.add((t.name, f.name))
                        self.sync.submit_fields.add((t.name, f.name))
        self.schema_sync, _ = S.build_code_schema(self.ir, resolver_for=self.sync.resolver_for,
                                                  type_resolver_for=self.sync.type_resolver_for)
        self.schema_async, _ = S.build_code_schema(self.ir, resolver_for=self.asyn.resolver_for,
                                                   type_resolver_for=self.asyn.type_resolver_for)
        self.sg = S.SchemaGen(rng)
        self.sg.s = self.ir
        self.sdl = S.to_sdl(self.ir)[0]


def outcome_signature(out):
    if out[0] == "ok":
        return ("ok", out[1], out[2])
    if out[0] == "raised":
        return ("raised", type(out[1]).__name__)
    return out


def check_outcome(ctx, ref, out, witness, config):
    """Compare one outcome with the reference. Returns True when it agrees."""
    if out[0] == "stuck":
        ctx.violation("stuck:%s" % config, witness, out[1])
        return False
    if ref[0] == "crash":
        surfaced = out[0] == "raised" and isinstance(out[1], (Crash, CrashBase))
        if out[0] == "raised" and not surfaced and isinstance(out[1], RuntimeError) and \
                isinstance(out[1].__cause__ or out[1].__context__, Crash) and \
                isinstance(out[1].__cause__ or out[1].__context__, StopIteration):
            # StopIteration cannot travel through generators and futures as it is (PEP 479): a RuntimeError
            # chained to it is that exception surfacing
            surfaced = True
            ctx.count("stop_iteration_surfaced_as_chained_runtime_error:" + config)
        if not surfaced:
            got = "normal result" if out[0] == "ok" else type(out[1]).__name__
            ctx.violation("unexpected-exception-lost:%s" % config, witness,
                          "resolver raised an unexpected exception, outcome was %s" % got)
            return False
        ctx.count("crash_surfaced:" + config)
        return True
    if out[0] == "raised":
        ctx.violation("raises:%s:%s" % (config, type(out[1]).__name__), witness, repr(out[1])[:300])
        return False
    _, data, errors, _ex = ref
    if not isinstance(out[1], dict):
        ctx.violation("data-missing:%s" % config, witness, repr(out[1])[:100])
        return False
    d = refexec.compare_data(out[1], data)
    if d:
        ctx.violation("data-differs:%s" % config, witness, "at %r outcome=%r model=%r" % (list(d[0]), d[1], d[2]))
        return False
    want = refexec.drop_under_aborted(sorted([p for p, _k in errors], key=repr), _ex)
    if want != refexec.drop_under_aborted(out[2], _ex):
        ctx.violation("error-paths-differ:%s" % config, witness, "outcome=%r model=%r" % (out[2][:5], want[:5]))
        return False
    return True


def run_config(ctx, rng, case, config, text, op, variables, ref, base_witness, max_exh, n_samples):
    import py_gql
    from py_gql.execution import Executor

    kw = {"variables": variables, "operation_name": op.name}
    root_type = dict(case.ir.roots())[op.kind]
    if config in ("blocking", "generic"):
        kw["root"] = case.sync.root_value(root_type)
        try:
            if config == "blocking":
                res = py_gql.graphql_blocking(case.schema_sync, text, **kw)
            else:
                res = py_gql.process_graphql_query(case.schema_sync, text, executor_cls=Executor, **kw)
            out = sched.normalise(res)
        except BaseException as e:  # noqa
            out = ("raised", e)
        ctx.evaluated()
        ctx.count("runs:" + config)
        check_outcome(ctx, ref, out, dict(base_witness, config=config), config)
        return

    if config == "threadpool":
        kw["root"] = case.sync.root_value(root_type)

        def run_with(ch, eager=False):
            return sched.run_threadpool(ch, case.schema_sync, text, kw, eager=eager)
    else:
        in_thread = config != "asyncio-coroutines"
        binding = case.sync if config == "asyncio-executor" else case.asyn
        schema = case.schema_sync if config == "asyncio-executor" else case.schema_async
        kw["root"] = binding.root_value(root_type)

        def setg(g):
            binding.gates = g

        def run_with(ch, eager=False):
            return sched.run_asyncio(ch, schema, text, kw, in_thread, setg, eager=eager)

    seen = set()
    n = 0
    exhaustive = True
    # second pass: tasks handed to a pool may already be finished when submit() returns
    passes = [(False, sched.explore(run_with, max_exh, n_samples, rng))]
    if config != "asyncio-coroutines":
        passes.append((True, sched.explore(lambda ch: run_with(ch, True), max(4, max_exh // 2), max(2, n_samples // 2), rng)))
    for eager, schedule, (out, trace), exh in ((e, a, b, c) for e, it in passes for a, b, c in it):
        n += 1
        exhaustive = exhaustive and exh
        if any(t and t[0] == "done-at-submit" for t in trace):
            ctx.count("schedules_with_tasks_done_at_submit:" + config)
        ctx.evaluated()
        ctx.count("runs:" + config)
        key = tuple(trace)
        if key not in seen:
            seen.add(key)
            ctx.count("distinct_schedules:" + config)
            if len(trace) >= 2:
                ctx.mark_nontrivial([case.sdl, text, variables, config, [list(map(str, t)) for t in trace]])
        ctx.counters["max_deferred:" + config] = max(ctx.counters["max_deferred:" + config], len(trace))
        if config == "threadpool":
            st = sched.LAST_FUTURE_STATS
            ctx.count("futures_created", st["created"])
            if st["double_resolution"]:
                ctx.observe("future-resolved-twice (InvalidStateError swallowed by concurrent.futures)")
            if st["pending_at_quiescence"] and out[0] == "ok":
                ctx.observe("futures-pending-at-quiescence", st["pending_at_quiescence"])
        w = dict(base_witness, config=config, schedule=schedule, done_at_submit_choices=eager,
                 completion_order=[list(map(str, t)) for t in trace])
        # (only where resolvers are invoked inline: with blocking functions shipped to the loop's executor a plain
        # function that hands back an awaitable starts its work when its pool task runs)
        if config == "asyncio-coroutines" and op.kind == "query":
            # "every order in which pending results become available": the coroutine resolvers of the root
            # selection set have to be pending together, or no order but the written one can ever happen
            roots = set(t[1:] for t in trace if t and t[0] == "gate" and len(t) == 2)
            ctx.count("root_coroutines_checked_for_being_in_flight_together", len(roots))
            late = sorted(roots - set(sched.LAST_FRONTIER))
            if late:
                ctx.violation("sibling-coroutines-not-in-flight-together:%s" % config, w,
                              "root fields %r were only started after another root field had completed (pending at the "
                              "first quiescent point: %r)" % (late, sched.LAST_FRONTIER[:6]))
                break
        if not check_outcome(ctx, ref, out, w, config):
            break
    if exhaustive and n > 1:
        ctx.count("operations_explored_exhaustively:" + config)
    if len(seen) >= 2 and ctx.counters["schedule_samples"] < 6:
        ctx.counters["schedule_samples"] += 1
        ctx.sample("schedules:" + config, {"document": text[:300], "distinct_orders": len(seen),
                                           "example_order": [list(map(str, t)) for t in list(seen)[0]][:8]})


def cancellation_probe(ctx, rng, case, text, op, variables, base):
    """A coroutine resolver whose in-flight work is cancelled raises asyncio.CancelledError (a BaseException that is
    no Exception). It is an unexpected resolver exception like any other: the overall result has to fail with it, it
    must not become data, be swallowed, or leave the result pending - whatever completes before or after it."""
    import asyncio

    root_type = dict(case.ir.roots())[op.kind]
    kw = {"variables": variables, "operation_name": op.name, "root": case.asyn.root_value(root_type)}

    def setg(g):
        case.asyn.gates = g

    case.asyn.cancel_paths = ()
    _out, trace = sched.run_asyncio(sched.Chooser(()), case.schema_async, text, dict(kw), False, setg)
    paths = sorted(set(t[1:] for t in trace if t and t[0] == "gate"), key=repr)
    if not paths:
        return
    victim = paths[rng.randrange(len(paths))]
    try:
        for k in range(3):
            case.asyn.cancel_paths = (victim,)
            ch = sched.Chooser((), random.Random("cancel:%d:%s" % (k, rng.random())) if k else None)
            out, trace = sched.run_asyncio(ch, case.schema_async, text, dict(kw), False, setg)
            ctx.evaluated()
            ctx.count("cancellation_runs")
            if not any(t[1:] == victim for t in trace if t and t[0] == "gate"):
                ctx.count("cancellation_victim_not_reached")
                continue
            ctx.count("cancellation_delivered")
            w = dict(base, config="asyncio-coroutines", cancelled_resolver_path=list(victim),
                     completion_order=[list(map(str, t)) for t in trace])
            if out[0] == "stuck":
                ctx.violation("cancelled-resolver:result-pending", w, out[1])
                return
            if out[0] == "ok":
                ctx.violation("cancelled-resolver:lost", w,
                              "a coroutine resolver raised asyncio.CancelledError, the request completed normally "
                              "(data %r)" % (out[1],))
                return
            if not isinstance(out[1], asyncio.CancelledError):
                ctx.violation("cancelled-resolver:other-exception:%s" % type(out[1]).__name__, w, repr(out[1])[:200])
                return
            ctx.count("cancellation_surfaced")
    finally:
        case.asyn.cancel_paths = ()


def run(ctx):
    rng = ctx.rng("cases")
    quick = ctx.tier == "quick"
    max_exh = 40 if quick else 240
    n_samples = 6 if quick else 24
    n_cases = ctx.n(7)
    for ci in range(n_cases + 1):
        # (one more case per shard: the unexpected exception is a BaseException that is no Exception)
        base_exception_case = ci == n_cases
        p_crash = 0.3 if ci % 2 == 1 or base_exception_case else 0.0
        case = DualCase(rng, "c08:%d:%d:%d" % (ctx.seed, ctx.shard, ci), p_crash)
        if base_exception_case:
            case.sync.crash_class = case.asyn.crash_class = CrashBase
            ctx.count("crash_class:CrashBase")
        elif p_crash:
            # every class of the family gets its turn across cases and shards
            from ..gen.world import DISTINCT_CRASH_CLASSES

            slot = ctx.shard + ci // 2
            # IndexError / KeyError are what the library's own control flow catches: every other case
            forced = DISTINCT_CRASH_CLASSES[1 + (slot // 2) % 2] if slot % 2 == 0 else \
                DISTINCT_CRASH_CLASSES[(slot // 2) % len(DISTINCT_CRASH_CLASSES)]
            from ..gen.world import library_crash_class, library_crash_class_2, library_crash_class_n

            if slot % 5 == 3:
                forced = library_crash_class() if (slot // 5) % 2 == 0 else library_crash_class_2()
            elif slot % 5 == 0:
                # the two library errors that the entry points answer with an error response when they come out of
                # operation selection / variable coercion
                forced = library_crash_class_n(2 + (slot // 5) % 2)
            elif slot % 5 == 1:
                # StopIteration cannot travel through a future as it is
                forced = [c for c in DISTINCT_CRASH_CLASSES if c.__name__ == "CrashStopIteration"][0]
            case.sync.crash_class = case.asyn.crash_class = forced
            ctx.count("crash_class:" + forced.__name__)
        try:
            case.schema_sync.validate()
            case.schema_async.validate()
        except Exception as e:
            ctx.violation("generated-schema-rejected:%s" % type(e).__name__, {"schema_sdl": case.sdl}, str(e)[:300])
            continue
        for ri in range(4):
            g = opgen.OpGen(rng, case.ir, max_depth=rng.choice([2, 3]))
            # mutations take the serial path, which has its own continuation logic
            kinds = ["mutation"] if case.ir.mutation and rng.random() < (0.7 if p_crash else 0.4) else None
            doc = g.document(n_ops=1, kinds=kinds)
            text = opgen.document_text(doc)
            op = doc.operations[0]
            variables = opgen.variable_values(rng, case.sg, op, nested=doc.nested_vars)
            ref = refexec.reference_result(case.ir, doc, op, variables, case.world)
            if ref[0] in ("abstain", "reject-variables"):
                ctx.abstain(ref[0])
                continue
            ctx.count("requests")
            ctx.count("reference:" + ref[0])
            if ref[0] == "crash":
                ctx.count("requests_crashing_with:" + getattr(getattr(case.sync, "crash_class", None), "__name__", "any"))
            base = {"schema_sdl": case.sdl, "world_seed": case.world.seed, "document": text, "variables": variables}
            for config in CONFIGS:
                run_config(ctx, rng, case, config, text, op, variables, ref, base, max_exh, n_samples)
            if ref[0] == "ok" and op.kind == "query":
                cancellation_probe(ctx, rng, case, text, op, variables, base)
    if ctx.shard % 2 == 0:
        stress(ctx, ctx.n(40))
    ctx.require("distinct_schedules:threadpool", 20)
    ctx.require("distinct_schedules:asyncio-coroutines", 10)
    ctx.require("distinct_schedules:asyncio-executor", 10)
    ctx.require("reference:ok", 5)
    ctx.require("cancellation_surfaced", 3)


# ---------------------------------------------------------------------------
# stress mode: real threads + LINE yield injection
# ---------------------------------------------------------------------------


def stress(ctx, n_runs):
    """Real ThreadPoolExecutor(8), seeded resolver latencies, sys.monitoring LINE callback on the
    library's runtime/executor code that yields the GIL with probability p."""
    import logging

    import py_gql
    from py_gql.execution import Executor
    from py_gql.execution.runtime import ThreadPoolRuntime
    import py_gql.execution.executor as m_exec
    import py_gql.execution.runtime.threadpool as m_tp
    import py_gql.execution.wrappers as m_wr

    rng = ctx.rng("stress")
    files = set(m.__file__ for m in (m_exec, m_tp, m_wr))
    mon = sys.monitoring
    tool = mon.PROFILER_ID
    injected = [0]
    yrng = random.Random(ctx.seed * 1000 + ctx.shard)
    threads_seen = set()

    def on_line(code, line):
        if code.co_filename not in files:
            return mon.DISABLE
        if yrng.random() < 0.15:
            injected[0] += 1
            threads_seen.add(threading.get_ident())
            time.sleep(0)
        return None

    records = []

    class H(logging.Handler):
        def emit(self, record):
            records.append(record.getMessage()[:200])

    handler = H()
    logging.getLogger("concurrent.futures").addHandler(handler)
    try:
        mon.use_tool_id(tool, "vf-yield")
    except ValueError:
        ctx.mark_inconclusive("sys.monitoring tool id in use")
        return
    mon.register_callback(tool, mon.events.LINE, on_line)
    mon.set_events(tool, mon.events.LINE)
    try:
        for ci in range(max(1, n_runs // 8)):
            case = DualCase(rng, "c08s:%d:%d:%d" % (ctx.seed, ctx.shard, ci), 0.0)
            lat = random.Random("lat:%d" % ci)
            base_finish = case.sync._finish

            def slow_finish(obj, f, kwargs, info, _b=base_finish):
                time.sleep(lat.choice([0, 0, 0.0005, 0.001, 0.002]))
                return _b(obj, f, kwargs, info)

            case.sync._finish = slow_finish
            for ri in range(8):
                g = opgen.OpGen(rng, case.ir, max_depth=3)
                doc = g.document(n_ops=1)
                text = opgen.document_text(doc)
                op = doc.operations[0]
                variables = opgen.variable_values(rng, case.sg, op, nested=doc.nested_vars)
                ref = refexec.reference_result(case.ir, doc, op, variables, case.world)
                if ref[0] != "ok":
                    continue
                rt = ThreadPoolRuntime(max_workers=8)
                root_type = dict(case.ir.roots())[op.kind]
                w = {"schema_sdl": case.sdl, "world_seed": case.world.seed, "document": text,
                     "variables": variables, "config": "threadpool-stress"}
                try:
                    fut = py_gql.process_graphql_query(case.schema_sync, text, runtime=rt, executor_cls=Executor,
                                                       variables=variables, operation_name=op.name,
                                                       root=case.sync.root_value(root_type))
                    try:
                        res = fut.result(timeout=60)
                        out = sched.normalise(res)
                    except TimeoutError:
                        # logical hang verdict: every submitted task finished, nothing queued
                        idle = rt._inner._work_queue.empty()
                        if idle:
                            out = ("stuck", "pool idle, result future pending after 60s")
                        else:
                            ctx.mark_inconclusive("stress run exceeded the wall-clock watchdog")
                            continue
                    except Exception as e:
                        out = ("raised", e)
                finally:
                    rt._inner.shutdown(wait=True)
                ctx.evaluated()
                ctx.count("runs:threadpool-stress")
                ctx.mark_nontrivial([case.sdl, text, variables, "stress", ri])
                check_outcome(ctx, ref, out, w, "threadpool-stress")
    finally:
        mon.set_events(tool, 0)
        mon.register_callback(tool, mon.events.LINE, None)
        mon.free_tool_id(tool)
        logging.getLogger("concurrent.futures").removeHandler(handler)
    ctx.count("yield_injections", injected[0])
    ctx.count("threads_seen_in_library_code", len(threads_seen))
    for r in records:
        ctx.observe("concurrent.futures-callback-exception", r)
