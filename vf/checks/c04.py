# -*- coding: utf-8 -*-
"""C04 Execution yields the specified result for every valid operation."""
from ..gen import opgen
from ..mon import exec_mon
from ..ref import refexec

RULE = (
    "per generated schema (two thirds code-built through the public constructors, one third built from SDL "
    "with extension blocks and resolvers registered through register_resolver; objects, interfaces, unions, "
    "coded enums, input objects, strict/transparent custom scalars, wrappers) a history of 6-20 "
    "requests is served by the same Schema object: valid-by-construction operations (fragments, "
    "inline fragments on abstract types, aliases, merged keys, @skip/@include, variables, custom "
    "directives) with seeded variable payloads against a seeded resolver world (values, nulls, lists "
    "with null items, nulls in non-null positions, ResolverError at arbitrary fields; explicit "
    "resolvers, dict roots and object roots served by the default resolver; three abstract-type "
    "resolution modes); every response is compared order-sensitively with the reference executor "
    "R-EXEC and earlier requests are re-issued later in the history; an eighth of the requests run on the "
    "thread-pool runtime with a real pool and resolver latencies that decrease in document order. "
    "A third of the requests hand over a pre-parsed Document that is reused by re-issues and must "
    "print the same after every execution; a quarter of the requests re-use an earlier document of the "
    "history (the same Document object when pre-parsed) with a fresh variable payload and any of its operations; internal enum values include python Enum members; type "
    "resolvers written as functions raise the resolver error for some objects (the field being "
    "completed is nulled); resolver errors may lack a message or be one shared instance.  "
    "Non-trivial = distinct (schema, "
    "request) whose operation has a fragment, merged key, directive, abstract type, null or error."
)
ASSUMPTIONS = [
    "R-EXEC/R-COLLECT/R-COERCE transcribe the June-2018 execution and coercion algorithms, with the two "
    "library semantics the statement adopts (no null propagation, ResolverError nulls its field)",
    "errors are compared as the multiset of response paths; each error's first node must be the field with that response key",
]


def one_request(ctx, rng, case, req, executor, prefix=""):
    doc, text, op, variables = req
    witness = {"schema_sdl": case.sdl, "world_seed": case.world.seed, "document": text,
               "operation": op.name, "variables": variables, "executor": executor}
    ref = refexec.reference_result(case.ir, doc, op, variables, case.world)
    # a third of the documents are handed over pre-parsed; the same Document object then serves every
    # re-issue of the request and must come out of each execution unmodified
    request = text
    printed = None
    cache = case.__dict__.setdefault("parsed_documents", {})
    if text in cache or len(text) % 3 == 0:
        from py_gql.lang import parse, print_ast

        if text not in cache:
            cache[text] = parse(text)
        request = cache[text]
        printed = print_ast(request)
        witness["pre_parsed_document"] = True
        ctx.count("requests_with_pre_parsed_document")
    try:
        result = exec_mon.run_blocking(case, request, op, variables, executor)
    except Exception as e:
        if ref[0] == "crash":
            return None
        ctx.violation(prefix + "entry-point-raises:%s" % type(e).__name__, witness, repr(e)[:300])
        return None
    ctx.evaluated()
    ctx.count("requests:" + executor)
    if printed is not None:
        from py_gql.lang import print_ast

        if print_ast(request) != printed:
            ctx.violation(prefix + "document-modified-by-execution", witness, "printed form of the Document differs after the request")
            cache.pop(text, None)
    compared = exec_mon.check_against_reference(ctx, case, doc, text, op, variables, result, ref, witness, prefix)
    if compared and ref[0] == "ok":
        feats = set(doc.features)
        if ref[2]:
            feats.add("errors")
        for f in feats:
            ctx.count("feature:" + f)
        if any(k == "nonnull" for _p, k in ref[2]):
            ctx.count("feature:null-in-non-null")
        if any(k == "resolver" for _p, k in ref[2]):
            ctx.count("feature:resolver-error")
        if feats:
            ctx.mark_nontrivial([case.sdl, text, variables, op.name])
        ctx.sample("request", {"document": text[:400], "variables": variables, "data": repr(ref[1])[:300],
                               "error_paths": [list(p) for p, _k in ref[2]][:5]})
    return (result.data, exec_mon.error_paths(result))


def run(ctx):
    from ..gen import schemair as S

    rng = ctx.rng("cases")
    for ci in range(ctx.n(45)):
        mode = "sdl" if ci % 3 == 2 else "code"
        try:
            case = exec_mon.Case(rng, "c04:%d:%d:%d" % (ctx.seed, ctx.shard, ci), mode=mode)
        except RecursionError:
            ctx.count("sdl_case_skipped:default-nests-own-input-type")   # known finding of C11
            continue
        ctx.count("schemas:" + mode)
        case.sdl = S.to_sdl(case.ir)[0]
        try:
            case.schema.validate()
        except Exception as e:
            ctx.violation("generated-schema-rejected:%s" % type(e).__name__, {"schema_sdl": case.sdl}, str(e)[:300])
            continue
        ctx.count("schemas")
        history = []
        n = rng.randint(6, 20)
        for ri in range(n):
            if history and rng.random() < 0.3:
                # re-issue an earlier request: same outcome whatever was served in between
                req, executor, earlier = rng.choice(history)
                again = one_request(ctx, rng, case, req, executor, prefix="history:")
                ctx.count("reissued")
                if again is not None and earlier is not None and again != earlier:
                    ctx.violation("history:result-changed-on-reissue",
                                  {"schema_sdl": case.sdl, "document": req[1], "variables": req[3]},
                                  "first=%r later=%r" % (earlier, again))
                continue
            if history and rng.random() < 0.25:
                # the same document (the same Document object when it was handed over pre-parsed) with a fresh
                # variable payload and possibly another of its operations: anything remembered per document or
                # per selection node must not carry over decisions that depended on the variables
                (doc0, text0, _op0, _vars0), _ex, _out = rng.choice(history)
                op1 = rng.choice(doc0.operations)
                from ..gen import opgen as _opgen

                req = (doc0, text0, op1, _opgen.variable_values(rng, case.sg, op1, nested=doc0.nested_vars))
                ctx.count("same_document_other_variables")
            else:
                req = exec_mon.gen_request(rng, case)
            executor = "blocking" if rng.random() < 0.6 else "generic"
            if rng.random() < 0.12:
                executor = "threadpool"
            out = one_request(ctx, rng, case, req, executor)
            history.append((req, executor, out))
    ctx.require("ref:ok", 100)
    ctx.require("reissued", 20)
    ctx.require("same_document_other_variables", 20)
    ctx.require("feature:fragment-spread", 10)
    ctx.require("feature:merged-key", 5)
    ctx.require("feature:null-in-non-null", 5)
    ctx.require("feature:resolver-error", 5)
