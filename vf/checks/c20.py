# -*- coding: utf-8 -*-
"""C20 Schema diffing reports every difference with a severity matching client impact."""
import copy
import json
import os
import random
import subprocess
import sys

from ..gen import opgen, schemair as S
from ..gen.schemair import SDirective, SEnumValue, SField, SInput, SType, UNSET, lst, named, nn

RULE = (
    "pairs (schema, edited schema) are produced by 48 elementary edit operators on the schema IR (add / "
    "remove / retype of types, fields, arguments, input fields at every wrapper depth: T->T!, T!->T, "
    "[T]->[T!], [T!]->[T], [T]->[[T]], named swap; enum values, union members, interface "
    "implementations, directives, locations, defaults, deprecations; argument edits on an interface's "
    "or an implementation's own copy of a field; abstract type narrowed to a possible type), singly and in combinations of "
    "2-3, plus structurally equal pairs (rebuilt, definitions reordered); both sides are code-built; "
    "diff_schema's change list (multiset of (class, message)) is checked: nothing for equal pairs; a "
    "change naming each edited element; whenever no BREAKING change is reported an independent "
    "variance model (covariant outputs, contravariant inputs, recursively through lists; removals; "
    "new required inputs) must find no breaking difference and operations valid on the old schema "
    "must validate on the new one; the multiset must be identical under PYTHONHASHSEED 0-3 "
    "(subprocesses) and under reordered type definitions. "
    "Further edits: enum value renamed keeping its internal value, default and nullability of one "
    "element changed together, related scalars swapped in input positions, the same nullability "
    "change in an input and an output position.  "
    "Non-trivial = distinct pair that differs by "
    ">= 1 edit, or an equal pair built from reordered definitions."
)
ASSUMPTIONS = ["the variance model (refvariance) states client impact: an output position may only become stricter, an input position only more permissive"]


# ---------------------------------------------------------------------------
# elementary edits: fn(rng, ir) -> [needles] or None (not applicable)
# ---------------------------------------------------------------------------
EDITS = []


def edit(fn):
    EDITS.append(fn)
    return fn


def objects(ir, with_root=True):
    return [t for t in ir.types.values() if t.kind == "object" and (with_root or t.name not in (ir.query, ir.mutation, ir.subscription))]


def pick_field(rng, ir, pred=lambda t, f: True):
    cands = [(t, f) for t in ir.types.values() if t.kind in ("object", "interface") for f in t.fields if pred(t, f)]
    return rng.choice(cands) if cands else None


def pick_arg(rng, ir, pred=lambda a: True):
    cands = [(t, f, a) for t in ir.types.values() if t.kind in ("object", "interface") for f in t.fields for a in f.args if pred(a)]
    return rng.choice(cands) if cands else None


def pick_input_field(rng, ir, pred=lambda f: True):
    cands = [(t, f) for t in ir.types.values() if t.kind == "input" for f in t.input_fields if pred(f)]
    return rng.choice(cands) if cands else None


def replace_field(ir, old, new):
    """Fields are pooled (same object in several types): replace every occurrence."""
    for t in ir.types.values():
        t.fields = [new if f is old else f for f in t.fields]


def retype(t, how):
    """Variants of a type expression; returns None when not applicable."""
    if how == "add-nonnull":
        return nn(t) if t[0] != "nonnull" else None
    if how == "drop-nonnull":
        return t[1] if t[0] == "nonnull" else None
    base = t[1] if t[0] == "nonnull" else t
    wrap = (lambda x: nn(x)) if t[0] == "nonnull" else (lambda x: x)
    if how == "item-add-nonnull":
        if base[0] == "list" and base[1][0] != "nonnull":
            return wrap(lst(nn(base[1])))
        return None
    if how == "item-drop-nonnull":
        if base[0] == "list" and base[1][0] == "nonnull":
            return wrap(lst(base[1][1]))
        return None
    if how == "wrap-list":
        return wrap(lst(base))
    if how == "unwrap-list":
        return wrap(base[1]) if base[0] == "list" and base[1][0] != "nonnull" else None
    return None


RETYPES = ["add-nonnull", "drop-nonnull", "item-add-nonnull", "item-drop-nonnull", "wrap-list", "unwrap-list"]


@edit
def add_type(rng, ir):
    name = "AddedEnum%d" % rng.randint(0, 999)
    e = ir.add(SType("enum", name))
    e.values = [SEnumValue("A")]
    return [name]


@edit
def remove_unreferenced_type(rng, ir):
    name = "Doomed%d" % rng.randint(0, 999)
    return ("pre", name)      # handled by the driver: the type is added to the OLD side only


@edit
def change_type_kind(rng, ir):
    enums = [t for t in ir.types.values() if t.kind == "enum"]
    if not enums:
        return None
    e = rng.choice(enums)
    # defaults referring to its values would become invalid: only if unused in defaults
    if uses_in_defaults(ir, e.name):
        return None
    new = SType("scalar", e.name, e.description)
    ir.types[e.name] = new
    return [e.name]


def uses_in_defaults(ir, typename):
    def touches(t, v, depth=0):
        if v is None:
            return False
        if depth > 12:
            return True    # (cyclic defaults) conservative: treat as used
        if t[0] in ("nonnull", "list"):
            if t[0] == "list":
                return any(touches(t[1], x, depth + 1) for x in (v if isinstance(v, list) else [v]))
            return touches(t[1], v, depth)
        if t[1] == typename:
            return True
        st = ir.types.get(t[1])
        if st is not None and st.kind == "input" and isinstance(v, dict):
            return any(touches(f.type, v.get(f.name, f.default if f.has_default else None), depth + 1) for f in st.input_fields)
        return False
    for t in ir.types.values():
        for f in t.fields:
            for a in f.args:
                if a.has_default and touches(a.type, a.default):
                    return True
        for f in t.input_fields:
            if f.has_default and touches(f.type, f.default):
                return True
    for d in ir.directives.values():
        for a in d.args:
            if a.has_default and touches(a.type, a.default):
                return True
    return False


@edit
def add_field(rng, ir):
    t = rng.choice(objects(ir))
    name = "addedField%d" % rng.randint(0, 999)
    t.fields = t.fields + [SField(name, rng.choice([named("Int"), nn(named("String")), lst(named("ID"))]))]
    return [name]


@edit
def remove_field(rng, ir):
    iface_fields = set(id(f) for t in ir.types.values() if t.kind == "interface" for f in t.fields)
    c = pick_field(rng, ir, lambda t, f: t.kind == "object" and len(t.fields) > 1 and id(f) not in iface_fields)
    if not c:
        return None
    t, f = c
    t.fields = [x for x in t.fields if x is not f]
    return [f.name]


def _retype_field(rng, ir, how):
    c = pick_field(rng, ir, lambda t, f: retype(f.type, how) is not None)
    if not c:
        return None
    t, f = c
    g = copy.copy(f)
    g.type = retype(f.type, how)
    replace_field(ir, f, g)
    return [f.name]


for _how in RETYPES:
    def _mk(how):
        def fn(rng, ir):
            return _retype_field(rng, ir, how)
        fn.__name__ = "field_type_" + how.replace("-", "_")
        return fn
    edit(_mk(_how))


@edit
def field_type_named_swap(rng, ir):
    c = pick_field(rng, ir, lambda t, f: S.unwrap(f.type) in ("Int", "String", "Float"))
    if not c:
        return None
    t, f = c

    def swap(x):
        if x[0] == "named":
            return named("Boolean")
        return (x[0], swap(x[1]))
    g = copy.copy(f)
    g.type = swap(f.type)
    replace_field(ir, f, g)
    return [f.name]


@edit
def field_type_abstract_to_possible_type(rng, ir):
    """Pet -> Dog (a union member / an implementer): operations that spread on another possible type
    stop validating, so this is a breaking retyping however covariant it looks."""
    c = pick_field(rng, ir, lambda t, f: ir.kind(S.unwrap(f.type)) in ("interface", "union")
                   and ir.possible_types(S.unwrap(f.type)))
    if not c:
        return None
    t, f = c
    target = rng.choice(ir.possible_types(S.unwrap(f.type)))

    def swap(x):
        if x[0] == "named":
            return named(target)
        return (x[0], swap(x[1]))
    g = copy.copy(f)
    g.type = swap(f.type)
    if rng.random() < 0.3 and g.type[0] != "nonnull":
        g.type = nn(g.type)
    replace_field(ir, f, g)
    return [f.name]


RELATED_SCALARS = [("Int", "Float"), ("Int", "ID"), ("String", "ID"), ("Float", "Int"), ("ID", "String")]


def _swap_named(t, new):
    return named(new) if t[0] == "named" else (t[0], _swap_named(t[1], new))


@edit
def argument_type_related_scalar(rng, ir):
    """Int -> Float and the like look like widenings, but a client variable declared with the old type
    no longer fits the position."""
    pairs = dict((a, []) for a, _b in RELATED_SCALARS)
    for a, b in RELATED_SCALARS:
        pairs[a].append(b)
    c = pick_arg(rng, ir, lambda a: S.unwrap(a.type) in pairs and not a.has_default)
    if not c:
        return None
    t, f, a = c
    b = copy.copy(a)
    b.type = _swap_named(a.type, rng.choice(pairs[S.unwrap(a.type)]))
    g = copy.copy(f)
    g.args = [b if x is a else x for x in f.args]
    replace_field(ir, f, g)
    return [a.name]


@edit
def input_field_type_related_scalar(rng, ir):
    pairs = dict((a, []) for a, _b in RELATED_SCALARS)
    for a, b in RELATED_SCALARS:
        pairs[a].append(b)
    c = pick_input_field(rng, ir, lambda f: S.unwrap(f.type) in pairs and not f.has_default)
    if not c:
        return None
    t, f = c
    if uses_in_defaults(ir, t.name):
        return None
    b = copy.copy(f)
    b.type = _swap_named(f.type, rng.choice(pairs[S.unwrap(f.type)]))
    t.input_fields = [b if x is f else x for x in t.input_fields]
    return [f.name]


@edit
def same_nullability_edit_in_an_input_and_an_output_position(rng, ir):
    """`count: T! -> T` (breaking) together with `arg: T! -> T` (harmless), or both the other way round: the
    two positions have opposite variance although the printed types are the same."""
    outs = {}
    for t in ir.types.values():
        if t.kind in ("object", "interface"):
            for f in t.fields:
                outs.setdefault(S.type_str(f.type), []).append((t, f))
    cands = []
    for t in ir.types.values():
        if t.kind in ("object", "interface"):
            for f in t.fields:
                for a in f.args:
                    if not a.has_default and S.type_str(a.type) in outs:
                        for how in ("add-nonnull", "drop-nonnull"):
                            if retype(a.type, how) is not None:
                                for (ot, of) in outs[S.type_str(a.type)]:
                                    if of is not f:
                                        cands.append((f, a, of, how))
    if not cands:
        return None
    f, a, of, how = rng.choice(cands)
    b = copy.copy(a)
    b.type = retype(a.type, how)
    g = copy.copy(f)
    g.args = [b if x is a else x for x in f.args]
    replace_field(ir, f, g)
    og = copy.copy(of)
    og.type = retype(of.type, how)
    replace_field(ir, of, og)
    # the harmless half is a compatible retyping, which diff_schema does not report at all (known finding)
    return [of.name] if how == "drop-nonnull" else [a.name]


@edit
def add_optional_argument(rng, ir):
    c = pick_field(rng, ir)
    t, f = c
    name = "addedArg%d" % rng.randint(0, 999)
    g = copy.copy(f)
    g.args = list(f.args) + [SInput(name, named("Int"))]
    replace_field(ir, f, g)
    return [name]


@edit
def add_required_argument(rng, ir):
    c = pick_field(rng, ir)
    t, f = c
    name = "requiredArg%d" % rng.randint(0, 999)
    g = copy.copy(f)
    g.args = list(f.args) + [SInput(name, nn(named("Int")))]
    replace_field(ir, f, g)
    return [name]


@edit
def remove_argument(rng, ir):
    c = pick_arg(rng, ir)
    if not c:
        return None
    t, f, a = c
    g = copy.copy(f)
    g.args = [x for x in f.args if x is not a]
    replace_field(ir, f, g)
    return [a.name]


def _own_argument_edit(rng, ir, kind):
    """Argument edits on one type's own copy of a (pooled) field: an interface and its implementations
    may legitimately differ in optional arguments and in defaults, so each side is diffed on its own."""
    sg = S.SchemaGen(rng)
    sg.s = ir
    cands = []
    for t in ir.types.values():
        if t.kind != kind:
            continue
        if kind == "object" and not t.interfaces:
            continue
        for f in t.fields:
            cands.append((t, f))
    if not cands:
        return None
    t, f = rng.choice(cands)
    g = copy.copy(f)
    modes = ["default"] if kind == "interface" else ["default", "add-optional"]
    if kind == "interface" and any(not required(a) for a in f.args):
        modes.append("remove-optional")
    mode = rng.choice(modes)
    if mode == "add-optional":
        name = "ownArg%d" % rng.randint(0, 999)
        g.args = list(f.args) + [SInput(name, named("Int"))]
        needle = name
    elif mode == "remove-optional":
        a = rng.choice([a for a in f.args if not required(a)])
        g.args = [x for x in f.args if x is not a]
        needle = a.name
    else:
        if not f.args:
            return None
        a = rng.choice(f.args)
        b = copy.copy(a)
        if a.has_default:
            if a.type[0] == "nonnull":
                return None
            b.default = UNSET
        else:
            d = sg.input_value_for(a.type, depth=2)
            if d is None:
                return None
            b.default = d
        g.args = [b if x is a else x for x in f.args]
        needle = a.name
    t.fields = [g if x is f else x for x in t.fields]
    return [needle]


@edit
def interface_own_argument_edit(rng, ir):
    return _own_argument_edit(rng, ir, "interface")


@edit
def implementation_own_argument_edit(rng, ir):
    return _own_argument_edit(rng, ir, "object")


def _retype_arg(rng, ir, how):
    c = pick_arg(rng, ir, lambda a: retype(a.type, how) is not None and not a.has_default)
    if not c:
        return None
    t, f, a = c
    b = copy.copy(a)
    b.type = retype(a.type, how)
    g = copy.copy(f)
    g.args = [b if x is a else x for x in f.args]
    replace_field(ir, f, g)
    return [a.name]


for _how in RETYPES:
    def _mk2(how):
        def fn(rng, ir):
            return _retype_arg(rng, ir, how)
        fn.__name__ = "argument_type_" + how.replace("-", "_")
        return fn
    edit(_mk2(_how))


def _default_edit(rng, ir, mode, where):
    sg = S.SchemaGen(rng)
    sg.s = ir
    if where == "arg":
        c = pick_arg(rng, ir, lambda a: (a.has_default if mode != "add" else not a.has_default))
        if not c:
            return None
        t, f, a = c
        b = copy.copy(a)
    else:
        c = pick_input_field(rng, ir, lambda f: (f.has_default if mode != "add" else not f.has_default))
        if not c:
            return None
        t, a = c
        b = copy.copy(a)
    if mode == "remove":
        b.default = UNSET
    else:
        from ..ref import refcoerce

        for _ in range(20):
            d = sg.input_value_for(a.type, depth=2)
            if d is None and a.type[0] == "nonnull":
                continue
            if mode == "add":
                break
            try:
                # a different literal that coerces to the same value is no edit
                if refcoerce.coerce_literal(ir, a.type, d) != refcoerce.coerce_literal(ir, a.type, a.default):
                    break
            except RecursionError:
                return None
        else:
            return None
        if d is None and a.type[0] == "nonnull":
            return None
        b.default = d
    if where == "arg":
        g = copy.copy(f)
        g.args = [b if x is a else x for x in f.args]
        replace_field(ir, f, g)
    else:
        t.input_fields = [b if x is a else x for x in t.input_fields]
    return [a.name]


for _mode in ("add", "remove", "change"):
    for _where in ("arg", "input"):
        def _mk3(mode, where):
            def fn(rng, ir):
                return _default_edit(rng, ir, mode, where)
            fn.__name__ = "default_%s_%s" % (mode, where)
            return fn
        edit(_mk3(_mode, _where))


@edit
def add_optional_input_field(rng, ir):
    ins = [t for t in ir.types.values() if t.kind == "input"]
    if not ins:
        return None
    t = rng.choice(ins)
    name = "addedInput%d" % rng.randint(0, 999)
    t.input_fields = t.input_fields + [SInput(name, named("Int"))]
    return [name]


@edit
def add_required_input_field(rng, ir):
    ins = [t for t in ir.types.values() if t.kind == "input"]
    if not ins:
        return None
    t = rng.choice(ins)
    if uses_in_defaults(ir, t.name):
        return None
    name = "requiredInput%d" % rng.randint(0, 999)
    t.input_fields = t.input_fields + [SInput(name, nn(named("Int")))]
    return [name]


@edit
def remove_input_field(rng, ir):
    c = pick_input_field(rng, ir)
    if not c:
        return None
    t, f = c
    if len(t.input_fields) < 2 or uses_in_defaults(ir, t.name):
        return None
    t.input_fields = [x for x in t.input_fields if x is not f]
    return [f.name]


def _retype_input_field(rng, ir, how):
    c = pick_input_field(rng, ir, lambda f: retype(f.type, how) is not None and not f.has_default)
    if not c:
        return None
    t, f = c
    if uses_in_defaults(ir, t.name):
        return None
    b = copy.copy(f)
    b.type = retype(f.type, how)
    t.input_fields = [b if x is f else x for x in t.input_fields]
    return [f.name]


for _how in RETYPES:
    def _mk4(how):
        def fn(rng, ir):
            return _retype_input_field(rng, ir, how)
        fn.__name__ = "input_field_type_" + how.replace("-", "_")
        return fn
    edit(_mk4(_how))


@edit
def add_enum_value(rng, ir):
    enums = [t for t in ir.types.values() if t.kind == "enum"]
    if not enums:
        return None
    e = rng.choice(enums)
    name = "ADDED_VALUE_%d" % rng.randint(0, 999)
    e.values = e.values + [SEnumValue(name, name if not getattr(e, "coded", False) else ("added", name))]
    return [name]


@edit
def remove_enum_value(rng, ir):
    enums = [t for t in ir.types.values() if t.kind == "enum" and len(t.values) > 1 and not uses_in_defaults(ir, t.name)]
    if not enums:
        return None
    e = rng.choice(enums)
    v = rng.choice(e.values)
    e.values = [x for x in e.values if x is not v]
    return [v.name]


@edit
def rename_enum_value_keeping_internal_value(rng, ir):
    """("RED", 1) -> ("CRIMSON", 1): for clients RED is gone, whatever python value backs the new name."""
    enums = [t for t in ir.types.values() if t.kind == "enum" and getattr(t, "coded", False)
             and not uses_in_defaults(ir, t.name)]
    if not enums:
        return None
    e = rng.choice(enums)
    v = rng.choice(e.values)
    w = copy.copy(v)
    w.name = "RENAMED_%s" % v.name
    e.values = [w if x is v else x for x in e.values]
    return [v.name, w.name]


def _default_and_type_edit(rng, ir, where):
    """Two elementary edits on one element: its default changes and its type becomes non-null."""
    sg = S.SchemaGen(rng)
    sg.s = ir
    if where == "arg":
        c = pick_arg(rng, ir, lambda a: a.has_default and a.type[0] != "nonnull")
        if not c:
            return None
        t, f, a = c
    else:
        c = pick_input_field(rng, ir, lambda f: f.has_default and f.type[0] != "nonnull")
        if not c:
            return None
        t, a = c
        if uses_in_defaults(ir, t.name):
            return None
    from ..ref import refcoerce

    b = copy.copy(a)
    b.type = nn(a.type)
    for _ in range(20):
        d = sg.input_value_for(b.type, depth=2)
        try:
            if d is not None and refcoerce.coerce_literal(ir, a.type, d) != refcoerce.coerce_literal(ir, a.type, a.default):
                break
        except RecursionError:
            return None
    else:
        return None
    b.default = d
    if where == "arg":
        g = copy.copy(f)
        g.args = [b if x is a else x for x in f.args]
        replace_field(ir, f, g)
    else:
        t.input_fields = [b if x is a else x for x in t.input_fields]
    return [a.name]


@edit
def argument_default_and_type(rng, ir):
    return _default_and_type_edit(rng, ir, "arg")


@edit
def input_field_default_and_type(rng, ir):
    return _default_and_type_edit(rng, ir, "input")


@edit
def change_enum_value_deprecation(rng, ir):
    enums = [t for t in ir.types.values() if t.kind == "enum"]
    if not enums:
        return None
    e = rng.choice(enums)
    v = rng.choice(e.values)
    w = copy.copy(v)
    w.deprecation = None if v.deprecation else "deprecated by edit"
    if v.deprecation and rng.random() < 0.5:
        w.deprecation = v.deprecation + " (changed)"
    e.values = [w if x is v else x for x in e.values]
    return [v.name]


@edit
def change_field_deprecation(rng, ir):
    c = pick_field(rng, ir)
    t, f = c
    g = copy.copy(f)
    g.deprecation = None if f.deprecation else "deprecated by edit"
    if f.deprecation and rng.random() < 0.5:
        g.deprecation = f.deprecation + " (changed)"
    replace_field(ir, f, g)
    return [f.name]


@edit
def add_union_member(rng, ir):
    us = [t for t in ir.types.values() if t.kind == "union"]
    if not us:
        return None
    u = rng.choice(us)
    cands = [o.name for o in objects(ir, with_root=False) if o.name not in u.members]
    if not cands:
        return None
    m = rng.choice(cands)
    u.members = u.members + [m]
    return [m]


@edit
def remove_union_member(rng, ir):
    us = [t for t in ir.types.values() if t.kind == "union" and len(t.members) > 1]
    if not us:
        return None
    u = rng.choice(us)
    m = rng.choice(u.members)
    u.members = [x for x in u.members if x != m]
    return [m]


@edit
def add_interface_implementation(rng, ir):
    ifs = [t for t in ir.types.values() if t.kind == "interface"]
    if not ifs:
        return None
    i = rng.choice(ifs)
    cands = [o for o in objects(ir) if i.name not in o.interfaces]
    if not cands:
        return None
    o = rng.choice(cands)
    o.interfaces = o.interfaces + [i.name]
    o.fields = o.fields + [f for f in i.fields if not o.field(f.name)]
    return [i.name]


@edit
def remove_interface_implementation(rng, ir):
    cands = [o for o in objects(ir) if o.interfaces]
    if not cands:
        return None
    o = rng.choice(cands)
    i = rng.choice(o.interfaces)
    if len(ir.possible_types(i)) < 2:
        pass
    o.interfaces = [x for x in o.interfaces if x != i]
    return [i]


@edit
def add_directive(rng, ir):
    name = "addedDirective%d" % rng.randint(0, 999)
    ir.directives[name] = SDirective(name, ["FIELD"])
    return [name]


@edit
def remove_directive(rng, ir):
    if not ir.directives:
        return None
    name = rng.choice(sorted(ir.directives))
    del ir.directives[name]
    return [name]


@edit
def add_directive_location(rng, ir):
    if not ir.directives:
        return None
    d = ir.directives[rng.choice(sorted(ir.directives))]
    cands = [l for l in ("FIELD", "QUERY", "MUTATION", "FRAGMENT_SPREAD", "INLINE_FRAGMENT", "OBJECT", "ENUM", "SCALAR") if l not in d.locations]
    loc = rng.choice(cands)
    e = copy.copy(d)
    e.locations = d.locations + [loc]
    ir.directives[d.name] = e
    return [loc]


@edit
def remove_directive_location(rng, ir):
    ds = [d for d in ir.directives.values() if len(d.locations) > 1]
    if not ds:
        return None
    d = rng.choice(sorted(ds, key=lambda x: x.name))
    loc = rng.choice(d.locations)
    e = copy.copy(d)
    e.locations = [l for l in d.locations if l != loc]
    ir.directives[d.name] = e
    return [loc]


@edit
def directive_argument_edit(rng, ir):
    ds = [d for d in ir.directives.values()]
    if not ds:
        return None
    d = rng.choice(sorted(ds, key=lambda x: x.name))
    e = copy.copy(d)
    mode = rng.choice(["add-optional", "add-required", "remove", "retype"])
    if mode == "add-optional":
        name = "dirArg%d" % rng.randint(0, 999)
        e.args = d.args + [SInput(name, named("Int"))]
    elif mode == "add-required":
        name = "dirReq%d" % rng.randint(0, 999)
        e.args = d.args + [SInput(name, nn(named("Int")))]
    elif not d.args:
        return None
    elif mode == "remove":
        a = rng.choice(d.args)
        name = a.name
        e.args = [x for x in d.args if x is not a]
    else:
        cands = [a for a in d.args if not a.has_default]
        if not cands:
            return None
        a = rng.choice(cands)
        how = rng.choice(RETYPES)
        nt = retype(a.type, how)
        if nt is None:
            return None
        b = copy.copy(a)
        b.type = nt
        name = a.name
        e.args = [b if x is a else x for x in d.args]
    ir.directives[d.name] = e
    return [name]


# ---------------------------------------------------------------------------
# refvariance: independent model of client impact
# ---------------------------------------------------------------------------


def output_safe(old, new):
    """New output type at least as strict (covariant, recursively through lists)."""
    if old[0] == "nonnull":
        return new[0] == "nonnull" and output_safe(old[1], new[1])
    if new[0] == "nonnull":
        return output_safe(old, new[1])
    if old[0] == "list":
        return new[0] == "list" and output_safe(old[1], new[1])
    return new[0] == "named" and old[1] == new[1]


def input_safe(old, new):
    """New input type at least as permissive (contravariant, recursively through lists)."""
    if new[0] == "nonnull":
        return old[0] == "nonnull" and input_safe(old[1], new[1])
    if old[0] == "nonnull":
        return input_safe(old[1], new)
    if old[0] == "list":
        return new[0] == "list" and input_safe(old[1], new[1])
    return new[0] == "named" and old[1] == new[1]


def required(x):
    return x.type[0] == "nonnull" and not x.has_default


def breaking_differences(a, b):
    out = []
    for name, t in a.types.items():
        u = b.types.get(name)
        if u is None:
            out.append("type %s removed" % name)
            continue
        if u.kind != t.kind:
            out.append("type %s changed kind" % name)
            continue
        if t.kind in ("object", "interface"):
            for f in t.fields:
                g = u.field(f.name)
                if g is None:
                    out.append("field %s.%s removed" % (name, f.name))
                    continue
                if not output_safe(f.type, g.type):
                    out.append("field %s.%s output type %s -> %s" % (name, f.name, S.type_str(f.type), S.type_str(g.type)))
                old_args = dict((x.name, x) for x in f.args)
                new_args = dict((x.name, x) for x in g.args)
                for an, x in old_args.items():
                    if an not in new_args:
                        out.append("argument %s.%s(%s) removed" % (name, f.name, an))
                    elif not input_safe(x.type, new_args[an].type):
                        out.append("argument %s.%s(%s) input type %s -> %s" % (name, f.name, an, S.type_str(x.type), S.type_str(new_args[an].type)))
                    elif required(new_args[an]) and not required(x):
                        out.append("argument %s.%s(%s) became required (default removed)" % (name, f.name, an))
                for an, x in new_args.items():
                    if an not in old_args and x.type[0] == "nonnull" and not x.has_default:
                        out.append("required argument %s.%s(%s) added" % (name, f.name, an))
            if t.kind == "object":
                for i in t.interfaces:
                    if i not in u.interfaces:
                        out.append("%s no longer implements %s" % (name, i))
        elif t.kind == "input":
            old_f = dict((x.name, x) for x in t.input_fields)
            new_f = dict((x.name, x) for x in u.input_fields)
            for fn, x in old_f.items():
                if fn not in new_f:
                    out.append("input field %s.%s removed" % (name, fn))
                elif not input_safe(x.type, new_f[fn].type):
                    out.append("input field %s.%s input type %s -> %s" % (name, fn, S.type_str(x.type), S.type_str(new_f[fn].type)))
                elif required(new_f[fn]) and not required(x):
                    out.append("input field %s.%s became required (default removed)" % (name, fn))
            for fn, x in new_f.items():
                if fn not in old_f and x.type[0] == "nonnull" and not x.has_default:
                    out.append("required input field %s.%s added" % (name, fn))
        elif t.kind == "enum":
            names = set(v.name for v in u.values)
            for v in t.values:
                if v.name not in names:
                    out.append("enum value %s.%s removed" % (name, v.name))
        elif t.kind == "union":
            for m in t.members:
                if m not in u.members:
                    out.append("union member %s removed from %s" % (m, name))
    for name, d in a.directives.items():
        e = b.directives.get(name)
        if e is None:
            out.append("directive %s removed" % name)
            continue
        for l in d.locations:
            if l not in e.locations:
                out.append("directive %s location %s removed" % (name, l))
        old_args = dict((x.name, x) for x in d.args)
        new_args = dict((x.name, x) for x in e.args)
        for an, x in old_args.items():
            if an not in new_args:
                out.append("directive argument @%s(%s) removed" % (name, an))
            elif not input_safe(x.type, new_args[an].type):
                out.append("directive argument @%s(%s) input type changed" % (name, an))
        for an, x in new_args.items():
            if an not in old_args and x.type[0] == "nonnull" and not x.has_default:
                out.append("required directive argument @%s(%s) added" % (name, an))
    return out


# ---------------------------------------------------------------------------


def build(ir, order_rng=None):
    names = list(ir.types)
    if order_rng is not None:
        order_rng.shuffle(names)
    schema = S.build_code_schema(ir, order=names)[0]
    schema.validate()
    return schema


def share_definition_nodes(sdl_a, old, new):
    """The new schema as one *derived* from the old one by a schema visitor: every type, field, argument, input
    field and enum value that kept its name still carries the definition node of the old schema (that is what
    SchemaVisitor-based transforms do while they edit an element). Nodes say where an element came from, not
    what it is now."""
    from py_gql.lang import parse
    from py_gql.schema import EnumType, InputObjectType, InterfaceType, ObjectType

    doc = parse(sdl_a, allow_type_system=True)
    n = 0
    for d in doc.definitions:
        name = getattr(getattr(d, "name", None), "value", None)
        if name is None or not type(d).__name__.endswith("TypeDefinition"):
            continue
        for schema in (old, new):
            t = schema.types.get(name)
            if t is None:
                continue
            if hasattr(t, "nodes"):
                t.nodes = [d]
            if isinstance(t, (ObjectType, InterfaceType)) and hasattr(d, "fields"):
                fmap = dict((f.name.value, f) for f in d.fields)
                for f in t.fields:
                    fn = fmap.get(f.name)
                    if fn is None or not hasattr(fn, "arguments"):
                        continue
                    f.node = fn
                    n += 1
                    amap = dict((a.name.value, a) for a in fn.arguments)
                    for a in f.arguments:
                        if a.name in amap:
                            a.node = amap[a.name]
            elif isinstance(t, InputObjectType) and hasattr(d, "fields"):
                fmap = dict((f.name.value, f) for f in d.fields)
                for f in t.fields:
                    if f.name in fmap:
                        f.node = fmap[f.name]
                        n += 1
            elif isinstance(t, EnumType) and hasattr(d, "values"):
                vmap = dict((v.name.value, v) for v in d.values)
                for v in t.values:
                    if v.name in vmap:
                        v.node = vmap[v.name]
                        n += 1
    return n


def changes_of(old, new):
    from py_gql.schema.differ import diff_schema

    return sorted((type(c).__name__, c.message, int(c.severity)) for c in diff_schema(old, new))


def make_pair(key):
    """Deterministic (old IR, new IR, edits, needles) from a seed key."""
    rng = random.Random(key)
    a = S.generate(rng)
    b = S.clone(a)
    k = rng.choice([1, 1, 1, 2, 3])
    applied, needles = [], []
    for fn in rng.sample(EDITS, len(EDITS)):
        if len(applied) >= k:
            break
        r = fn(rng, b)
        if r is None:
            continue
        if isinstance(r, tuple) and r[0] == "pre":
            t = SType("enum", r[1])
            t.values = [SEnumValue("A")]
            a.add(t)
            r = [r[1]]
        applied.append(fn.__name__)
        needles.extend(r)
    return a, b, applied, needles


def digests(keys):
    """[(key, multiset of changes)] - used by the hash-seed subprocesses too."""
    out = []
    for key in keys:
        try:
            a, b, applied, needles = make_pair(key)
        except RecursionError:
            out.append([key, "unbuildable:RecursionError"])
            continue
        try:
            old, new = build(a), build(b)
        except (Exception, RecursionError) as e:
            out.append([key, "unbuildable:%s" % type(e).__name__])
            continue
        try:
            out.append([key, changes_of(old, new)])
        except Exception as e:
            out.append([key, "raises:%s" % type(e).__name__])
    return out


def run(ctx):
    from py_gql.exc import SchemaError
    from py_gql.lang import parse
    from py_gql.validation import validate_ast

    rng = ctx.rng("cases")
    keys = ["c20:%d:%d:%d" % (ctx.seed, ctx.shard, i) for i in range(ctx.n(250))]
    mine = {}
    for key in keys:
        try:
            a, b, applied, needles = make_pair(key)
        except RecursionError:
            ctx.count("edited_schema_invalid")
            continue
        sdl_a, sdl_b = S.to_sdl(a)[0], S.to_sdl(b)[0]
        witness = {"old_sdl": sdl_a, "new_sdl": sdl_b, "edits": applied, "needles": needles, "key": key}
        try:
            old = build(a)
        except Exception as e:
            ctx.mark_inconclusive("harness could not build the old schema: %r" % (e,))
            continue
        try:
            new = build(b)
        except (SchemaError, ValueError, AssertionError, RecursionError) as e:
            ctx.count("edited_schema_invalid")
            continue
        if rng.random() < 0.3:
            # the edited schema as a derivation of the old one that kept the definition nodes
            try:
                if share_definition_nodes(sdl_a, old, new):
                    ctx.count("pairs_sharing_definition_nodes")
                    witness["new_schema_keeps_definition_nodes_of_old"] = True
            except Exception as e:
                ctx.mark_inconclusive("harness could not attach definition nodes: %r" % (e,))
                continue
        ctx.evaluated()
        ctx.count("pairs")
        for e in applied:
            ctx.count("edit:" + e)
        ctx.mark_nontrivial([sdl_a, sdl_b])
        try:
            changes = changes_of(old, new)
        except Exception as e:
            ctx.violation("diff-raises:%s" % type(e).__name__, witness, repr(e)[:300])
            continue
        mine[key] = changes
        if rng.random() < 0.25:
            # history: the schema that has just been diffed is changed in place (a field is hidden through the
            # public SchemaVisitor API) and diffed again: the answer is that of diffing a fresh copy of it
            from py_gql.schema.transforms import VisibilitySchemaTransform

            cands = [(t.name, f.name) for t in b.types.values() if t.kind == "object" and len(t.fields) > 1 and t.name != b.query
                     for f in t.fields if a.types.get(t.name) is not None and a.types[t.name].kind == "object" and a.types[t.name].field(f.name)
                     and not any(b.types[i].field(f.name) for i in t.interfaces if i in b.types)]
            if cands:
                hidden = rng.choice(cands)

                from py_gql.schema import SchemaVisitor

                class HideByVisibility(VisibilitySchemaTransform):
                    def is_field_visible(self, typename, fieldname):
                        return (typename, fieldname) != hidden

                class HideByVisitor(SchemaVisitor):
                    # a plain schema visitor that drops the field: the type is rebuilt and replaced in the schema
                    def on_object(self, object_type):
                        self._current = object_type.name
                        return super().on_object(object_type)

                    def on_field(self, field):
                        if (getattr(self, "_current", None), field.name) == hidden:
                            return None
                        return super().on_field(field)

                Hide = HideByVisibility if rng.random() < 0.5 else HideByVisitor

                try:
                    Hide().on_schema(new)
                    new.validate()
                except Exception:
                    ctx.count("in_place_change_refused")
                else:
                    ctx.evaluated()
                    ctx.count("diffs_after_in_place_change")
                    w2 = dict(witness, hidden_in_place="%s.%s" % hidden)
                    try:
                        again, fresh = changes_of(old, new), changes_of(old, new.clone())
                    except SchemaError:
                        ctx.count("in_place_change_refused")     # the narrowed schema is not a valid schema
                        continue
                    except Exception as e:
                        ctx.violation("diff-raises:%s:after-in-place-change" % type(e).__name__, w2, repr(e)[:300])
                        continue
                    if again != fresh:
                        ctx.violation("history:diff-after-in-place-change-differs-from-diff-of-a-fresh-copy", w2,
                                      "same object: %r; clone: %r" % ([m for _c, m, _s in again][:4], [m for _c, m, _s in fresh][:4]))
                    elif not any(hidden[1] in m for _c, m, _s in again):
                        ctx.violation("history:field-hidden-in-place-not-reported", w2, repr([m for _c, m, _s in again][:6]))
                    continue
        for _c, _m, sev in changes:
            ctx.count("severity:%s" % {0: "COMPATIBLE", 1: "DANGEROUS", 2: "BREAKING"}[sev])
        # every edit is named by some change
        model = breaking_differences(a, b)
        # (single edits only: in combinations a later edit may act on an element that an earlier
        # one added or removed, which is then legitimately reported as a whole)
        for e, needle in (zip(applied, needles) if len(applied) == 1 else ()):
            if not any(needle in m for _c, m, _s in changes):
                retyped_dir_arg = e == "directive_argument_edit" and any(
                    needle in [x.name for x in d1.args] and needle in [x.name for x in b.directives.get(d1.name, d1).args]
                    for d1 in a.directives.values())
                if ("_type_" in e or retyped_dir_arg) and not any(needle in d for d in model):
                    # retyping that is safe for every client (output tightened / input relaxed)
                    ctx.violation("edit-not-reported:compatible-type-change", witness,
                                  "%s: no change mentions %r" % (e, needle))
                else:
                    ctx.violation("edit-not-reported:%s" % e, witness, "no change mentions %r; changes=%r" % (needle, [m for _c, m, _s in changes][:6]))
                break
        # soundness of "no breaking change"
        reported_breaking = any(s == 2 for _c, _m, s in changes)
        if model:
            ctx.count("pairs_breaking_by_model")
        if not reported_breaking and model:
            kind = model[0].split(" ")[0] + ("-" + model[0].split(" ")[2] if "type" in model[0].split(" ")[1:3] or "input" in model[0] or "output" in model[0] else "")
            ctx.violation("unsound-no-breaking:%s" % classify(model[0]), witness, "model finds %r; reported %r" % (model[:3], [m for _c, m, _s in changes][:4]))
        elif not reported_breaking:
            ctx.count("pairs_without_breaking")
            # operations valid on the old schema stay valid on the new one
            for _ in range(4):
                g = opgen.OpGen(rng, a, max_depth=2)
                doc = g.document(n_ops=1)
                text = opgen.document_text(doc)
                document = parse(text)
                ctx.evaluated()
                if validate_ast(old, document).errors:
                    ctx.mark_inconclusive("generated operation invalid on the old schema: %r" % text[:200])
                    continue
                errs = validate_ast(new, parse(text)).errors
                ctx.count("operations_revalidated")
                if errs and all("return conflicting types" in str(e) for e in errs) and \
                        any(x.startswith("field_type_") for x in applied):
                    # a field made stricter (T -> T!, [T] -> [T!]) no longer has the response shape of the
                    # field it shares a response name with on another object type
                    ctx.violation("unsound-no-breaking:stricter-output-type-breaks-shared-response-name",
                                  dict(witness, operation=text), "errors %r" % ([str(e) for e in errs][:2],))
                    break
                if errs:
                    ctx.violation("unsound-no-breaking:operation-no-longer-valid", dict(witness, operation=text),
                                  "errors %r; reported changes %r" % ([str(e) for e in errs][:2], [m for _c, m, _s in changes][:4]))
                    break
        # equal pairs: rebuilt and reordered
        ctx.evaluated()
        try:
            same = changes_of(build(a), build(S.clone(a), rng))
            ctx.count("equal_pairs")
            ctx.mark_nontrivial([sdl_a, "equal-reordered"])
            if same:
                ctx.violation("equal-pair-reports-changes", {"old_sdl": sdl_a}, repr(same[:3]))
            again = changes_of(build(a, rng), build(b, rng))
            ctx.count("reordered_pairs")
            if again != changes:
                ctx.violation("result-depends-on-type-order", witness, "%r vs %r" % (again[:3], changes[:3]))
        except Exception as e:
            ctx.violation("diff-raises:%s" % type(e).__name__, witness, repr(e)[:300])
        ctx.sample("pair", {"edits": applied, "changes": [(c, m) for c, m, s in changes][:5]})
    # hash-seed independence: the same keys in fresh processes with other hash seeds
    sub_keys = [k for k in keys if k in mine][: max(6, int(len(keys) * 0.25))]
    here = os.path.dirname(os.path.dirname(os.path.dirname(os.path.abspath(__file__))))
    for hs in ("1", "2", "3"):
        code = ("import sys, json; sys.path.insert(0, %r); import vf\n"
                "from vf.checks.c20 import digests\n"
                "sys.stdout.write(json.dumps(digests(json.loads(%r))))\n") % (here, json.dumps(sub_keys))
        env = dict(os.environ, PYTHONHASHSEED=hs, PYTHONDONTWRITEBYTECODE="1")
        try:
            p = subprocess.run([sys.executable, "-c", code], stdout=subprocess.PIPE, stderr=subprocess.PIPE, timeout=600, env=env)
        except subprocess.TimeoutExpired:
            ctx.mark_inconclusive("hash-seed subprocess timed out")
            continue
        if p.returncode != 0:
            ctx.mark_inconclusive("hash-seed subprocess failed: %s" % p.stderr.decode("utf8", "replace")[-300:])
            continue
        for key, other in json.loads(p.stdout.decode("utf8")):
            ctx.evaluated()
            ctx.count("cross_hash_seed_comparisons")
            if isinstance(other, list):
                other = sorted(tuple(x) for x in other)
            if other != mine[key]:
                ctx.violation("result-depends-on-hash-seed", {"key": key, "hash_seed": hs}, "%r vs %r" % (other if isinstance(other, str) else other[:3], mine[key][:3]))
    ctx.require("pairs", 30)
    ctx.require("equal_pairs", 20)
    ctx.require("cross_hash_seed_comparisons", 10)
    ctx.require("operations_revalidated", 20)


def classify(msg):
    """Mechanism discriminator of a model finding (no names)."""
    w = msg.split(" ")
    if "became" in w:
        return "non-null-input-lost-its-default"
    if "output" in w:
        return "output-type-relaxed"
    if "input" in w and "type" in w and ("argument" in w or "field" in w or "directive" in w):
        return "input-type-restricted"
    if "removed" in w:
        return w[0] + "-removed" if w[0] != "input" else "input-field-removed"
    if "added" in w:
        return "required-input-added"
    if "kind" in w:
        return "type-kind-changed"
    if "implements" in w:
        return "interface-implementation-removed"
    return w[0]
