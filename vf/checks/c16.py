# -*- coding: utf-8 -*-
"""C16 Instrumentation and middlewares see every field exactly once, properly nested."""
from ..gen import opgen, schemair as S
from ..mon import exec_mon, instr_mon, sched
from ..ref import refexec

THOROUGH_SCALE = 8.0   # 16 shards; see DESIGN.md section 7

RULE = (
    "requests of every outcome class (syntax error by truncation, validation error, missing required "
    "variable, unknown and ambiguous operation name, operations whose root selections are all excluded, successful and partially failing executions with "
    "ResolverError and nulls in non-null positions) are issued with 1-3 stacked recording "
    "instrumentations (plus 0-2 partial members overriding 1-4 hooks each, which must receive exactly "
    "the firings of those hooks that a full member receives) and 0-3 recording middlewares under all six executor/runtime configurations, "
    "the deferred ones under the schedule controller; all hooks, middlewares and resolver spies "
    "append to one thread-safe event log with a logical clock, checked offline: stage grammar "
    "(pairs, nesting, at most once, ends present, expected stages per outcome class), one "
    "field_start before and one field_end after the resolver for exactly the fields the reference "
    "executor resolves, every middleware exactly once per field with the last listed outermost, "
    "stacked instrumentations start in order and end reversed. "
    "A quarter of the parseable requests are pre-parsed Documents; stacks contain nested stacks, "
    "half of them subclasses with recording hooks of their own; type resolvers may raise the "
    "resolver error (one field end hook). Subscriptions over streams of 2-4 events (asyncio runtime) are checked "
    "per event: the slice of the log between two results must hold one field start and one field end per "
    "field the reference executor resolves for that event.  "
    "Non-trivial = distinct (request, "
    "configuration, schedule) with >= 2 resolved fields or a failing stage."
)
ASSUMPTIONS = ["the set of resolved fields is the set of response paths the reference executor visits",
               "middleware order follows the apply_middlewares doctest: last listed is outermost"]

EXPECTED_STAGES = {
    "syntax": ["query", "parsing"],
    "validation": ["query", "parsing", "validation"],
    "variables": ["query", "parsing", "validation"],
    "operation-name": ["query", "parsing", "validation"],
    "subscription-as-request": ["query", "parsing", "validation"],
    "executed": ["query", "parsing", "validation", "execution"],
    "executed-empty": ["query", "parsing", "validation", "execution"],
}


def make_requests(rng, case):
    """[(class, text, op or None, operation_name, variables, doc)]"""
    out = []
    g = opgen.OpGen(rng, case.ir, max_depth=rng.choice([2, 3]))
    doc = g.document(n_ops=rng.choice([1, 1, 2]))
    text = opgen.document_text(doc)
    op = rng.choice(doc.operations)
    variables = opgen.variable_values(rng, case.sg, op, nested=doc.nested_vars)
    out.append(("executed", text, op, variables, doc))
    cut = rng.randrange(1, max(2, len(text) - 2))
    out.append(("syntax", text[:cut] + rng.choice(["", "\"", "{", "\\u12"]), op, variables, doc))
    bad = text.replace("{", "{ zzUnknownField", 1)
    out.append(("validation", bad, op, variables, doc))
    required = [v for v in op.variables if v[1][0] == "nonnull" and v[2] is S.UNSET]
    if required:
        v2 = dict(variables)
        v2.pop(required[0][0], None)
        out.append(("variables", text, op, v2, doc))
    if len(doc.operations) > 1:
        out.append(("operation-name", text, None, variables, doc))      # ambiguous: no name given
    # every root selection excluded: the execution stage opens and closes around nothing
    empty = opgen.OOperation("query", "NothingSelected", [], [])
    out.append(("executed-empty", rng.choice([
        "query NothingSelected { __typename @skip(if: true) }",
        "query NothingSelected($t: Boolean! = true) { __typename @skip(if: $t) ... @include(if: false) { __typename } }",
        "query NothingSelected { ...F @include(if: false) } fragment F on %s { __typename }" % case.ir.query,
    ]), empty, {}, doc))
    if case.ir.subscription:
        # a subscription document sent to the request/response entry points: answered with an error, and whatever
        # stage was started on the way has to be ended
        g2 = opgen.OpGen(rng, case.ir, max_depth=2)
        g2.doc = opgen.ODoc()
        sop = g2.operation(kind="subscription", name="SubscriptionSentAsRequest")
        out.append(("subscription-as-request", opgen.document_text(g2.doc), sop,
                    opgen.variable_values(rng, case.sg, sop, nested=g2.doc.nested_vars), g2.doc))
    fake = opgen.OOperation(op.kind, "NoSuchOperation", op.selection, op.variables)
    out.append(("operation-name", text, fake, variables, doc))
    return out


def run(ctx):
    rng = ctx.rng("cases")
    quick = ctx.tier == "quick"
    max_exh = 12 if quick else 100
    n_samples = 3 if quick else 20
    log = sched.EventLog()
    for ci in range(ctx.n(6)):
        case = exec_mon.DualCase(rng, "c16:%d:%d:%d" % (ctx.seed, ctx.shard, ci), log=log,
                                 world_kw={"p_error": 0.1, "p_null_in_nonnull": 0.05})
        try:
            case.schema_sync.validate()
        except Exception as e:
            ctx.violation("generated-schema-rejected:%s" % type(e).__name__, {"schema_sdl": case.sdl}, str(e)[:300])
            continue
        for ri in range(3):
            for cls, text, op, variables, doc in make_requests(rng, case):
                n_instr = rng.randint(1, 3)
                n_mw = rng.randint(0, 3)
                partials = instr_mon.partial_spec(rng, n_instr)
                nest = rng.randrange(1000) if rng.random() < 0.4 else None
                if nest is not None and nest % 2 and n_instr + len(partials) >= 2:
                    # the group's own hooks are checked like a partial member that overrides every hook
                    partials = list(partials) + [(instr_mon.GROUP_TAG, sorted(instr_mon.HOOKS), -1)]
                expected_paths, ref = None, None
                if cls == "executed":
                    ref = refexec.reference_result(case.ir, doc, op, variables, case.world)
                    if ref[0] != "ok":
                        ctx.abstain(ref[0])
                        continue
                    expected_paths = ref[3].visited
                base = {"schema_sdl": case.sdl, "world_seed": case.world.seed, "document": text,
                        "variables": variables, "class": cls, "instrumentations": n_instr, "middlewares": n_mw,
                        "partial_members": [(h, pos) for _t, h, pos in partials],
                        "operation_name": op.name if op is not None else None}
                if cls == "executed-empty":
                    expected_paths = set()
                configs = exec_mon.CONFIGS if cls.startswith("executed") else rng.sample(exec_mon.CONFIGS, 3)
                # a quarter of the parseable requests arrive as Document objects: no parsing stage then
                request = text
                if cls != "syntax" and rng.random() < 0.25:
                    try:
                        from py_gql.lang import parse

                        request = parse(text)
                        base["pre_parsed_document"] = True
                    except Exception:
                        request = text
                expected_stages = [st for st in EXPECTED_STAGES[cls] if st != "parsing" or request is text]
                # half of the requests configure middleware *objects* that are equal to, but not the same as, those
                # of every other request: each request must run through its own instances
                equal_mw = n_mw > 0 and rng.random() < 0.5
                base["middleware_objects_equal_across_requests"] = equal_mw
                run_ids = [0]
                falsy = n_instr == 1 and not partials and nest is None and rng.random() < 0.3
                base["falsy_instrumentation_object"] = falsy
                # a third of the requests use recorders whose hooks live on the *instance* (bound in __init__, handed
                # to a factory as plain callbacks, patched in): they are hooks of that instrumentation all the same
                hooks_on_instances = rng.random() < 0.33
                base["hooks_bound_on_instances"] = hooks_on_instances
                if hooks_on_instances:
                    ctx.count("requests_with_hooks_bound_on_instances")
                for config in configs:
                    def extra():
                        instr_mon.FALSY_SINGLE[0] = falsy
                        if falsy:
                            ctx.count("runs_with_falsy_instrumentation_object")
                        run_ids[0] += 1
                        rid = (id(run_ids), run_ids[0])
                        run_ids.append(rid)
                        if equal_mw:
                            mws = [instr_mon.EqualMiddleware(log, i, rid) for i in range(n_mw)]
                        else:
                            mws = [instr_mon.make_middleware(log, i) for i in range(n_mw)]
                        instr_mon.HOOKS_ON_INSTANCES[0] = hooks_on_instances
                        return {"instrumentation": instr_mon.make_instrumentations(log, n_instr, [p for p in partials if p[2] >= 0], nest),
                                "middlewares": mws}

                    def run_with(ch, config=config, eager=False):
                        log.events = []
                        return exec_mon.run_request(config, case, request, op, variables, ch, extra, eager=eager)

                    seen = set()
                    for schedule, (out, trace), exh in exec_mon.schedules(config, rng, run_with, max_exh, n_samples,
                        eager_run_with=lambda ch, run_with=run_with: run_with(ch, eager=True)):
                        events = list(log.events)
                        ctx.evaluated()
                        ctx.count("runs:" + config)
                        ctx.count("class:" + cls)
                        ctx.count("events", len(events))
                        key = tuple(trace)
                        if key not in seen:
                            seen.add(key)
                            ctx.count("distinct_schedules:" + config)
                            if cls != "executed" or len(expected_paths) >= 2:
                                ctx.mark_nontrivial([case.sdl, text, variables, config, cls, n_instr, n_mw,
                                                     [list(map(str, t)) for t in trace]])
                        w = dict(base, config=config, schedule=schedule,
                                 completion_order=[list(map(str, t)) for t in trace])
                        if out[0] != "ok":
                            ctx.violation("no-result:%s:%s" % (config, out[0]), w, repr(out[1])[:300])
                            break
                        problems = instr_mon.check_stage_grammar(events, n_instr)
                        if equal_mw:
                            ctx.count("runs_with_equal_middleware_objects")
                            stale = [e for e in events if e["ev"] == "mw" and e.get("run") != run_ids[-1]]
                            if stale:
                                problems.append(("middleware:instance-configured-for-another-request-invoked",
                                                 "path %r" % (list(stale[0]["path"]),)))
                        if partials:
                            ctx.count("runs_with_partial_members")
                            problems += instr_mon.check_partials(events, partials)
                        stages = []
                        for e in events:
                            if e["ev"] == "stage" and e["tag"] == 0 and e["edge"] == "start":
                                stages.append(e["stage"])
                        if request is not text:
                            ctx.count("runs_with_pre_parsed_document")
                            if any(e["ev"] == "stage" and e["stage"] == "parsing" for e in events):
                                # not demanded by the statement (pairs must match, whatever fires)
                                ctx.observe("parsing hooks fired for a pre-parsed document")
                                expected_stages = EXPECTED_STAGES[cls]
                        if stages != expected_stages:
                            # the request may legitimately fail earlier than planned (e.g. a truncated
                            # text that still parses): only a *wrong shape* for the observed outcome counts
                            res = out[3]
                            observed = "executed" if isinstance(res.data, dict) else None
                            if observed == "executed" and cls != "executed":
                                pass
                            elif cls.startswith("executed"):
                                problems.append(("stage:unexpected-set-for-%s" % cls, repr(stages)))
                        if cls == "executed-empty":
                            problems += instr_mon.check_fields(events, expected_paths, n_mw)
                        if cls == "executed":
                            ctx.count("fields_expected", len(expected_paths))
                            no_call = set(tuple(p) for p, k in ref[2] if k == "argument")
                            ctx.count("fields_without_resolver_call", len(no_call))
                            problems += instr_mon.check_fields(events, expected_paths, n_mw, no_call_paths=no_call,
                                                               aborted=ref[3].type_failures)
                            ctx.count("middleware_traversals", sum(1 for e in events if e["ev"] == "mw"))
                        for k, detail in problems[:2]:
                            ctx.violation("%s:%s" % (k, "deferred" if config in exec_mon.DEFERRED else config), w, detail)
                        if problems:
                            break
                    if ctx.counters["samples_taken"] < 8 and cls in ("executed", "syntax"):
                        ctx.counters["samples_taken"] += 1
                        ctx.sample(cls + ":" + config, {"document": text[:200], "events": [
                            (e["ev"], e.get("stage") or list(e.get("path", ())), e.get("edge"), e.get("tag", e.get("idx")))
                            for e in log.events[:14]]})
    subscriptions(ctx, log, ctx.n(10))
    ctx.require("subscription_events_checked", 10)
    ctx.require("class:executed", 20)
    ctx.require("class:syntax", 5)
    ctx.require("class:validation", 5)
    ctx.require("fields_expected", 50)
    ctx.require("middleware_traversals", 50)


def subscriptions(ctx, log, n_cases):
    """Subscriptions are requests too: one executor serves every event of a stream, and the field hooks must
    fire once per resolved field for *each* event (same offline checker, applied to the slice of the log that
    belongs to the event)."""
    import asyncio

    from py_gql.execution import subscribe
    from py_gql.execution.runtime import AsyncIORuntime
    from py_gql.lang import parse

    from ..gen.world import Obj
    from .c17 import Source, SubCase

    instr_mon.FALSY_SINGLE[0] = False
    rng = ctx.rng("subscriptions")
    loop = asyncio.new_event_loop()
    try:
        for ci in range(n_cases):
            case = SubCase(rng, "c16s:%d:%d:%d" % (ctx.seed, ctx.shard, ci))
            case.binding.log = log
            try:
                case.schema.validate()
            except Exception:
                continue
            sub_type = case.ir.types[case.ir.subscription]
            usable = [f.name for f in sub_type.fields if f.name not in case.no_sub_resolver]
            for ri in range(3):
                g = opgen.OpGen(rng, case.ir, max_depth=rng.choice([2, 3]))
                for _ in range(20):
                    g.doc = opgen.ODoc()
                    op = g.operation(kind="subscription", name="S")
                    if op.selection[0].name in usable:
                        break
                else:
                    continue
                doc = g.doc
                text = opgen.document_text(doc)
                variables = opgen.variable_values(rng, case.sg, op, nested=doc.nested_vars)
                n_events = rng.choice([2, 3, 4])
                events = [Obj(case.ir.subscription, "evt-%d-%d-%d" % (ci, ri, k)) for k in range(n_events)]
                if rng.random() < 0.3:
                    events[1] = events[0]          # the same payload twice in a row
                refs = [refexec.reference_result(case.ir, doc, op, variables, case.world, root=e) for e in events]
                if any(r[0] != "ok" for r in refs):
                    ctx.abstain("subscription-reference:" + [r[0] for r in refs if r[0] != "ok"][0])
                    continue
                case.source = Source([case.binding.to_python(e) for e in events], rng, as_class=rng.random() < 0.5)
                n_instr = rng.randint(1, 3)
                rt = AsyncIORuntime(loop=loop, execute_blocking_functions_in_thread=False)
                witness = {"schema_sdl": case.sdl, "world_seed": case.world.seed, "document": text, "variables": variables,
                           "events": n_events, "instrumentations": n_instr, "class": "subscription"}
                slices = []

                async def go():
                    log.events = []
                    stream = await subscribe(case.schema, parse(text), variables=variables, operation_name="S", runtime=rt,
                                             instrumentation=instr_mon.make_instrumentations(log, n_instr))
                    it = stream.__aiter__()
                    while True:
                        log.events = []
                        try:
                            await it.__anext__()
                        except StopAsyncIteration:
                            break
                        slices.append(list(log.events))

                ctx.evaluated()
                try:
                    loop.run_until_complete(asyncio.wait_for(go(), 60))
                except asyncio.TimeoutError:
                    ctx.mark_inconclusive("subscription stream exceeded the watchdog")
                    continue
                except Exception as e:
                    from py_gql.exc import CoercionError

                    if isinstance(e, CoercionError):
                        ctx.abstain("subscription refused: root field arguments cannot be coerced (judged by C17)")
                        continue
                    ctx.violation("subscription:raises:%s" % type(e).__name__, witness, repr(e)[:300])
                    continue
                ctx.count("class:subscription")
                if len(slices) != n_events:
                    ctx.observe("subscription stream length differs from the source (judged by C17)")
                    continue
                for k, (evs, ref) in enumerate(zip(slices, refs)):
                    ctx.count("subscription_events_checked")
                    no_call = set(tuple(p) for p, kind in ref[2] if kind == "argument")
                    problems = instr_mon.check_fields(evs, ref[3].visited, 0, no_call_paths=no_call, aborted=ref[3].type_failures)
                    for key, detail in problems[:2]:
                        ctx.violation("subscription:%s" % key, dict(witness, event_index=k), detail)
                    if problems:
                        break
                if n_events >= 2:
                    ctx.mark_nontrivial([case.sdl, text, variables, "subscription", n_events])
    finally:
        loop.close()
