# -*- coding: utf-8 -*-
"""C01 Parser accepts exactly the grammar and fails only with syntax errors."""
import subprocess
import sys

from ..mon.parse_mon import ParseMonitor, lang_workload, nontrivial_c01

RULE = (
    "texts come from a fixed hostile lexical corpus placed in 13 syntactic contexts, repository "
    "fixtures and their prefixes, grammar-directed derivations (executable, type-system, value, "
    "type) with random trivia, token/character mutants and truncations of them, and small-scope "
    "token sequences (exhaustive slice + random); each (entry point, text, flags) call is decided "
    "against the independent grammar model R-LANG. Non-trivial = distinct (entry, flags, text) "
    "whose text has >= 3 tokens or is a lexical edge case from the hostile corpus."
)
ASSUMPTIONS = [
    "R-LANG (vf/ref/reflang.py) is a faithful transcription of the June-2018 grammar plus the "
    "documented deviations (number look-ahead restrictions per CHANGES 0.5.0, const directives on "
    "variable definitions, fragment variables, greedy optional blocks)",
    "bytes inputs are valid UTF-8",
]


def deep_nesting_probe(ctx):
    """Named probe: nesting 10 000 deep in a subprocess; reported under its own key."""
    code = (
        "import sys; sys.path.insert(0, %r)\n"
        "from py_gql.lang import parse\n"
        "from py_gql.lang.parser import parse_value, parse_type\n"
        "from py_gql.exc import GraphQLSyntaxError\n"
        "import faulthandler; faulthandler.enable()\n"
        "n = 10000\n"
        "for name, fn, text in [('value', parse_value, '[' * n + ']' * n), ('type', parse_type, '[' * n + 'T' + ']' * n),"
        " ('document', parse, '{a' * n + '}' * n)]:\n"
        "    try:\n"
        "        fn(text); print(name, 'accept')\n"
        "    except GraphQLSyntaxError: print(name, 'syntax-error')\n"
        "    except RecursionError: print(name, 'RecursionError')\n"
        "    except BaseException as e: print(name, type(e).__name__)\n"
    ) % sys.path[0]
    try:
        p = subprocess.run([sys.executable, "-c", code], stdout=subprocess.PIPE, stderr=subprocess.STDOUT, timeout=120)
    except subprocess.TimeoutExpired:
        ctx.mark_inconclusive("deep nesting probe timed out")
        return
    out = p.stdout.decode("utf8", "replace")
    ctx.extra["deep_nesting_probe"] = [out.strip()[-400:]]
    ctx.count("deep_nesting_probe_runs")
    for line in out.splitlines():
        parts = line.split()
        if len(parts) == 2 and parts[1] not in ("accept", "syntax-error"):
            ctx.violation("deep-nesting:%s" % parts[1], {"entry": parts[0], "text": "nesting 10000 deep"}, line)
    if p.returncode != 0:
        ctx.violation("deep-nesting:interpreter-crash", {"rc": p.returncode}, out[-300:])


def run(ctx):
    mon = ParseMonitor(ctx, check_trees=False, check_errors=True)
    seen = set()
    for entry, text, flags, cls, as_bytes, vbc in lang_workload(ctx, ctx.n(700), ctx.n(2500), 3 if ctx.tier == "quick" else 4):
        lib, ref, _ = mon.observe(entry, text, flags, cls, as_bytes, vbc)
        if nontrivial_c01(text, cls):
            ctx.mark_nontrivial([entry, sorted(flags.items()), text])
        if lib == "reject":
            ctx.sample("rejected:" + cls.split(":")[0], {"entry": entry, "text": text[:120], "flags": flags})
        else:
            ctx.sample("accepted:" + cls.split(":")[0], {"entry": entry, "text": text[:120], "flags": flags})
    if ctx.shard == 0:
        deep_nesting_probe(ctx)
    ctx.require("outcome:accept/accept", 50)
    ctx.require("outcome:reject/reject", 50)
    ctx.require("errors_checked", 50)


def replay(ctx, key, w):
    mon = ParseMonitor(ctx, check_trees=False, check_errors=True)
    if "entry" in w and "text" in w and "flags" in w:
        mon.observe(w["entry"], w["text"], w["flags"], w.get("class", "replay"), w.get("bytes", False), False)
