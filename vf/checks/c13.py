# -*- coding: utf-8 -*-
"""C13 Schema validation accepts valid schemas and rejects each rule violation."""
import copy

from ..gen import schemair as S
from ..gen.schemair import SDirective, SEnumValue, SField, SInput, SType, lst, named, nn

RULE = (
    "valid generated schemas (plus benign covariant interface implementations, extra optional "
    "arguments and permissive resolver signatures) are built through the public constructors in up to "
    "6 orderings of types= and must validate; 60 labelled operators inject violations on fresh "
    "uniquely named elements (invalid names of types / fields / arguments / enum values / input "
    "fields / directives / directive arguments; empty object / interface / input / union / enum; "
    "duplicate fields / arguments / members / interfaces / input fields; input types in output "
    "positions and vice versa through wrappers; interface field missing / wrong type / not covariant "
    "through list and non-null nesting / argument missing, retyped or extra required; non-object union "
    "members and roots; missing query type; six resolver-signature faults; one callable shared by two "
    "fields of which it fits only one), singly and in "
    "combinations of 2-4: validate_schema must raise SchemaValidationError whose messages name every "
    "injected element (all violations reported together), identically for every type ordering; "
    "histories of register_resolver / register_default_resolver / register_subscription with bad and "
    "good signatures interleaved with validate() must agree with a fresh validate_schema() at every "
    "step. "
    "Further operators: non-ASCII letters / digits in names, ObjectType(default_resolver=...) "
    "that does not fit, arguments merely called args / kwargs (benign); every verdict is compared "
    "with the verdict on schema.clone().  "
    "Non-trivial = distinct schema with >= 1 interface or injected violation, or a history of "
    ">= 2 validate calls."
)
ASSUMPTIONS = ["an injected violation counts as reported when some error message contains the unique name of the injected element"]


# ---------------------------------------------------------------------------
# operators: each adds fresh elements to the IR and returns (needle, extra) or None
# ---------------------------------------------------------------------------

OPS = []
BENIGN = []


def op(fn):
    OPS.append(fn)
    return fn


def benign(fn):
    BENIGN.append(fn)
    return fn


class Inj(object):
    """Accumulates what an operator needs beyond the IR (bad resolvers, root overrides)."""

    def __init__(self):
        self.resolvers = {}     # (type, field) -> callable
        self.default_resolvers = {}   # type -> callable given to ObjectType(default_resolver=...)
        self.n = 0

    def fresh(self, prefix):
        self.n += 1
        return "%s%d" % (prefix, self.n)


def attach(ir, inj, typ, nullable=True):
    """Make a fresh type reachable from the query type through a fresh field."""
    q = ir.types[ir.query]
    fname = inj.fresh("zzReach")
    q.fields.append(SField(fname, named(typ.name)))
    return fname


def attach_input(ir, inj, type_expr):
    q = ir.types[ir.query]
    fname = inj.fresh("zzReachIn")
    q.fields.append(SField(fname, named("Int"), [SInput("x", type_expr)]))
    return fname


def new_object(ir, inj, name=None, fields=None):
    o = SType("object", name or inj.fresh("ZzObj"))
    o.fields = fields if fields is not None else [SField(inj.fresh("zzok"), named("Int"))]
    ir.add(o)
    return o


# -- names -------------------------------------------------------------------
# names are /[_A-Za-z][_0-9A-Za-z]*/: letters and digits of other scripts are not name characters
BAD_NAMES = ["bad-name", "9starts_with_digit", "__reserved", "with space", "dollar$", "caf\u00e9", "x\u03b1",
             "us\u0435r", "field\u0661", "n\u540d", "\u00e9tat"]
# endings that an end-anchored pattern may let through ('$' also matches before a final line feed)
BAD_ENDINGS = ["\n", " ", "-", "$", "\u00e9", "\r", "\t", "\u0661", "\n\n", "\u2028"]


def bad_name(rng, inj, tag, pool=None, prefix="zz"):
    """An invalid name that is unique: the fresh part is a suffix, or (a third of the time) the name *ends* badly."""
    if rng.random() < 0.33:
        return prefix + inj.fresh(tag) + rng.choice(BAD_ENDINGS)
    return rng.choice(pool or BAD_NAMES) + inj.fresh(tag)


@op
def invalid_type_name(rng, ir, inj):
    name = bad_name(rng, inj, "", ["Bad-Type", "9Type", "__Reserved", "Sp ace", "Caf\u00e9", "T\u0443pe", "Type\u0661"], prefix="ZzT")
    kind = rng.choice(["object", "enum", "input", "interface", "union", "scalar"])
    if kind == "object":
        t = new_object(ir, inj, name)
        attach(ir, inj, t)
    elif kind == "enum":
        t = ir.add(SType("enum", name))
        t.values = [SEnumValue("A")]
        attach(ir, inj, t)
    elif kind == "input":
        t = ir.add(SType("input", name))
        t.input_fields = [SInput("a", named("Int"))]
        attach_input(ir, inj, named(name))
    elif kind == "interface":
        t = ir.add(SType("interface", name))
        t.fields = [SField(inj.fresh("zzif"), named("Int"))]
        impl = new_object(ir, inj, fields=list(t.fields))
        impl.interfaces = [name]
        attach(ir, inj, t)
    elif kind == "union":
        o = new_object(ir, inj)
        t = ir.add(SType("union", name))
        t.members = [o.name]
        attach(ir, inj, t)
    else:
        t = ir.add(SType("scalar", name))
        attach(ir, inj, t)
    return name


@op
def invalid_field_name(rng, ir, inj):
    bad = bad_name(rng, inj, "F")
    o = new_object(ir, inj, fields=[SField(bad, named("Int"))])
    attach(ir, inj, o)
    return bad


@op
def invalid_argument_name(rng, ir, inj):
    bad = bad_name(rng, inj, "A")
    o = new_object(ir, inj, fields=[SField(inj.fresh("zzok"), named("Int"), [SInput(bad, named("Int"))])])
    attach(ir, inj, o)
    return bad


@op
def invalid_enum_value_name(rng, ir, inj):
    bad = bad_name(rng, inj, "V", ["bad-value", "9nine", "__res", "sp ace"], prefix="ZZ")
    e = ir.add(SType("enum", inj.fresh("ZzEnum")))
    e.values = [SEnumValue("GOOD"), SEnumValue(bad)]
    attach(ir, inj, e)
    return bad


@op
def invalid_input_field_name(rng, ir, inj):
    bad = bad_name(rng, inj, "I")
    t = ir.add(SType("input", inj.fresh("ZzInput")))
    t.input_fields = [SInput(bad, named("Int"))]
    attach_input(ir, inj, named(t.name))
    return bad


@op
def invalid_directive_name(rng, ir, inj):
    bad = bad_name(rng, inj, "D", ["bad-dir", "9dir", "__dir"])
    ir.directives[bad] = SDirective(bad, ["FIELD"])
    return bad


@op
def invalid_directive_argument_name(rng, ir, inj):
    bad = bad_name(rng, inj, "DA")
    name = inj.fresh("zzdir")
    ir.directives[name] = SDirective(name, ["FIELD"], [SInput(bad, named("Int"))])
    return bad


# -- emptiness ---------------------------------------------------------------
@op
def empty_object(rng, ir, inj):
    o = new_object(ir, inj, fields=[])
    attach(ir, inj, o)
    return o.name


@op
def empty_interface(rng, ir, inj):
    t = ir.add(SType("interface", inj.fresh("ZzEmptyIface")))
    attach(ir, inj, t)
    return t.name


@op
def empty_input(rng, ir, inj):
    t = ir.add(SType("input", inj.fresh("ZzEmptyInput")))
    attach_input(ir, inj, named(t.name))
    return t.name


@op
def empty_union(rng, ir, inj):
    t = ir.add(SType("union", inj.fresh("ZzEmptyUnion")))
    attach(ir, inj, t)
    return t.name


@op
def empty_enum(rng, ir, inj):
    t = ir.add(SType("enum", inj.fresh("ZzEmptyEnum")))
    attach(ir, inj, t)
    return t.name


# -- duplicates ----------------------------------------------------------------
@op
def duplicate_field(rng, ir, inj):
    f = inj.fresh("zzdupf")
    o = new_object(ir, inj, fields=[SField(f, named("Int")), SField(f, named("Int"))])
    attach(ir, inj, o)
    return f


@op
def duplicate_argument(rng, ir, inj):
    a = inj.fresh("zzdupa")
    o = new_object(ir, inj, fields=[SField(inj.fresh("zzok"), named("Int"), [SInput(a, named("Int")), SInput(a, named("Int"))])])
    attach(ir, inj, o)
    return a


@op
def duplicate_union_member(rng, ir, inj):
    o = new_object(ir, inj)
    u = ir.add(SType("union", inj.fresh("ZzDupUnion")))
    u.members = [o.name, o.name]
    attach(ir, inj, u)
    return u.name


@op
def duplicate_interface(rng, ir, inj):
    i = ir.add(SType("interface", inj.fresh("ZzTwiceIface")))
    i.fields = [SField(inj.fresh("zzif"), named("Int"))]
    o = new_object(ir, inj, fields=list(i.fields))
    o.interfaces = [i.name, i.name]
    attach(ir, inj, o)
    return i.name


@op
def duplicate_input_field(rng, ir, inj):
    f = inj.fresh("zzdupi")
    t = ir.add(SType("input", inj.fresh("ZzDupInput")))
    t.input_fields = [SInput(f, named("Int")), SInput(f, named("Int"))]
    attach_input(ir, inj, named(t.name))
    return f


@op
def duplicate_directive_argument(rng, ir, inj):
    a = inj.fresh("zzdupda")
    name = inj.fresh("zzdir")
    ir.directives[name] = SDirective(name, ["FIELD"], [SInput(a, named("Int")), SInput(a, named("Int"))])
    return a


# -- positions -----------------------------------------------------------------
def wrap(rng, t):
    return rng.choice([lambda x: x, nn, lst, lambda x: nn(lst(nn(x))), lambda x: lst(lst(x))])(t)


@op
def input_type_in_output_position(rng, ir, inj):
    t = ir.add(SType("input", inj.fresh("ZzIn")))
    t.input_fields = [SInput("a", named("Int"))]
    f = inj.fresh("zzInOut")
    ir.types[ir.query].fields.append(SField(f, wrap(rng, named(t.name))))
    return f


@op
def output_type_in_argument_position(rng, ir, inj):
    o = new_object(ir, inj)
    a = inj.fresh("zzOutArg")
    ir.types[ir.query].fields.append(SField(inj.fresh("zzok"), named("Int"), [SInput(a, wrap(rng, named(o.name)))]))
    return a


@op
def output_type_in_input_field(rng, ir, inj):
    o = new_object(ir, inj)
    f = inj.fresh("zzOutInField")
    t = ir.add(SType("input", inj.fresh("ZzBadInput")))
    t.input_fields = [SInput(f, wrap(rng, named(o.name)))]
    attach_input(ir, inj, named(t.name))
    return f


@op
def output_type_in_directive_argument(rng, ir, inj):
    o = new_object(ir, inj)
    a = inj.fresh("zzOutDirArg")
    name = inj.fresh("zzdir")
    ir.directives[name] = SDirective(name, ["FIELD"], [SInput(a, wrap(rng, named(o.name)))])
    return a


# -- interfaces ----------------------------------------------------------------
def iface_with(ir, inj, field):
    i = ir.add(SType("interface", inj.fresh("ZzIface")))
    i.fields = [field]
    return i


def implement(ir, inj, i, fields):
    o = new_object(ir, inj, fields=fields)
    o.interfaces = [i.name]
    attach(ir, inj, o)
    return o


@op
def interface_field_missing(rng, ir, inj):
    f = inj.fresh("zzMissing")
    i = iface_with(ir, inj, SField(f, named("Int")))
    implement(ir, inj, i, [SField(inj.fresh("zzother"), named("Int"))])
    return f


@op
def interface_field_wrong_named_type(rng, ir, inj):
    f = inj.fresh("zzWrongType")
    i = iface_with(ir, inj, SField(f, named("Int")))
    implement(ir, inj, i, [SField(f, named("String"))])
    return f


@op
def interface_field_not_covariant(rng, ir, inj):
    f = inj.fresh("zzNotCovariant")
    base = named("Int")
    pairs = [(nn(base), base), (lst(nn(base)), lst(base)), (lst(base), base), (base, lst(base)),
             (nn(lst(base)), lst(base)), (lst(lst(nn(base))), lst(lst(base))), (nn(lst(nn(base))), nn(lst(base)))]
    it, ot = rng.choice(pairs)
    i = iface_with(ir, inj, SField(f, it))
    implement(ir, inj, i, [SField(f, ot)])
    return f


@op
def interface_broken_itself_and_badly_implemented(rng, ir, inj):
    """Two violations around one interface: its own definition is broken (a badly named field or argument) and
    an object implements another of its fields with a type that does not fit. Both are reported together."""
    f = inj.fresh("zzBothBroken")
    bad = bad_name(rng, inj, "BB")
    if rng.random() < 0.5:
        own = SField(bad, named("Int"))
    else:
        own = SField(inj.fresh("zzok"), named("Int"), [SInput(bad, named("Int"))])
    i = iface_with(ir, inj, SField(f, lst(named("Int"))))
    i.fields.append(own)
    implement(ir, inj, i, [SField(f, named("Int")), S.clone(own)])
    return f


@op
def interface_field_retyped_and_argument_missing(rng, ir, inj):
    """Two violations on one implementing field: its type does not fit and it lacks (or retypes) an argument of
    the interface field. All violations are reported together: the argument must be named as well."""
    f = inj.fresh("zzTwoOnOneField")
    a = inj.fresh("zzNeededArg")
    i = iface_with(ir, inj, SField(f, lst(named("Int")), [SInput(a, named("Int"))]))
    mine = [] if rng.random() < 0.6 else [SInput(a, named("String"))]
    implement(ir, inj, i, [SField(f, named("Int"), mine)])
    return a


@op
def interface_argument_missing(rng, ir, inj):
    f = inj.fresh("zzArgMissing")
    i = iface_with(ir, inj, SField(f, named("Int"), [SInput("need", named("Int"))]))
    implement(ir, inj, i, [SField(f, named("Int"))])
    return f


@op
def interface_argument_retyped(rng, ir, inj):
    f = inj.fresh("zzArgRetyped")
    i = iface_with(ir, inj, SField(f, named("Int"), [SInput("arg", named("Int"))]))
    implement(ir, inj, i, [SField(f, named("Int"), [SInput("arg", rng.choice([named("String"), nn(named("Int")), lst(named("Int"))]))])])
    return f


@op
def interface_extra_required_argument(rng, ir, inj):
    f = inj.fresh("zzExtraRequired")
    i = iface_with(ir, inj, SField(f, named("Int")))
    implement(ir, inj, i, [SField(f, named("Int"), [SInput("extra", nn(named("Int")))])])
    return f


@benign
def covariant_implementations(rng, ir, inj):
    base = named("Int")
    pairs = [(base, nn(base)), (lst(base), lst(nn(base))), (lst(base), nn(lst(nn(base)))), (lst(lst(base)), lst(nn(lst(base))))]
    it, ot = rng.choice(pairs)
    f = inj.fresh("zzCovariant")
    i = iface_with(ir, inj, SField(f, it, [SInput("a", named("Int"))]))
    implement(ir, inj, i, [SField(f, ot, [SInput("a", named("Int")), SInput("optionalExtra", named("String"))])])
    # interface-typed field narrowed to an implementing object
    g = inj.fresh("zzNarrow")
    node = iface_with(ir, inj, SField(inj.fresh("zznid"), named("ID")))
    impl = implement(ir, inj, node, list(node.fields))
    j = iface_with(ir, inj, SField(g, named(node.name)))
    implement(ir, inj, j, [SField(g, nn(named(impl.name)))])
    return None


# -- members / roots -----------------------------------------------------------
@op
def non_object_union_member(rng, ir, inj):
    e = ir.add(SType("enum", inj.fresh("ZzMemberEnum")))
    e.values = [SEnumValue("A")]
    o = new_object(ir, inj)
    u = ir.add(SType("union", inj.fresh("ZzBadUnion")))
    u.members = [o.name, e.name]
    attach(ir, inj, u)
    return u.name


@op
def non_object_root(rng, ir, inj):
    e = ir.add(SType("enum", inj.fresh("ZzRootEnum")))
    e.values = [SEnumValue("A")]
    which = rng.choice(["mutation", "subscription"])
    setattr(ir, which, e.name)
    return e.name


# -- resolver signatures ---------------------------------------------------------
def _resolver_field(ir, inj, args):
    f = inj.fresh("zzResolved")
    ir.types[ir.query].fields.append(SField(f, named("Int"), args))
    return f


@op
def resolver_too_few_positional(rng, ir, inj):
    f = _resolver_field(ir, inj, [])
    inj.resolvers[(ir.query, f)] = rng.choice([lambda root, ctx: 1, lambda root: 1, lambda: 1])
    return f


@op
def resolver_missing_parameter(rng, ir, inj):
    f = _resolver_field(ir, inj, [SInput("needed", nn(named("Int")))])
    inj.resolvers[(ir.query, f)] = lambda root, ctx, info: 1
    return f


@op
def resolver_optional_argument_without_default(rng, ir, inj):
    f = _resolver_field(ir, inj, [SInput("maybe", named("Int"))])
    inj.resolvers[(ir.query, f)] = lambda root, ctx, info, maybe: 1
    return f


@op
def resolver_required_keyword_only_parameter(rng, ir, inj):
    """A required keyword-only parameter that matches no argument can never be supplied, however many positional
    parameters come before it (a starred one included)."""
    f = _resolver_field(ir, inj, [SInput("given", named("Int"), 1)] if rng.random() < 0.5 else [])
    ns = {}
    exec(rng.choice([
        "def r(root, ctx, info, *, surprise, **kw):\n    return 1\n",
        "def r(root, *args, surprise, **kw):\n    return 1\n",
        "def r(*args, surprise, **kw):\n    return 1\n",
        "def r(root, ctx, info, *, surprise, given=1):\n    return 1\n",
        "def r(root, ctx, *args, surprise, given=1):\n    return 1\n",
    ]), ns)
    inj.resolvers[(ir.query, f)] = ns["r"]
    return f


@op
def resolver_extra_required_parameter(rng, ir, inj):
    f = _resolver_field(ir, inj, [])
    inj.resolvers[(ir.query, f)] = lambda root, ctx, info, surprise: 1
    return f


@op
def resolver_positional_only_argument(rng, ir, inj):
    f = _resolver_field(ir, inj, [SInput("posonly", nn(named("Int")))])
    ns = {}
    exec("def r(root, ctx, info, posonly, /):\n    return 1\n", ns)
    inj.resolvers[(ir.query, f)] = ns["r"]
    return f


@op
def resolver_ignores_python_name(rng, ir, inj):
    a = SInput("graphqlName", nn(named("Int")), python_name="python_name")
    f = _resolver_field(ir, inj, [a])
    inj.resolvers[(ir.query, f)] = lambda root, ctx, info, graphqlName: 1
    return f


@op
def shared_resolver_fits_only_one_field(rng, ir, inj):
    """One callable serves two fields with the same argument names; the argument is always supplied
    for one of them (default) and optional for the other, where the parameter then needs a default."""
    from ..gen.schemair import SType

    always, maybe = inj.fresh("ZzAlways"), inj.fresh("ZzMaybe")
    fa, fm = inj.fresh("zzSharedAlways"), inj.fresh("zzSharedMaybe")
    ta, tm = SType("object", always), SType("object", maybe)
    ta.fields = [SField(fa, named("Int"), [SInput("x", named("Int"), 0)])]
    tm.fields = [SField(fm, named("Int"), [SInput("x", named("Int"))])]
    # the position of the two types relative to each other is part of the workload
    pair = [ta, tm]
    rng.shuffle(pair)
    for t in pair:
        ir.add(t)
    q = ir.types[ir.query]
    q.fields.append(SField(inj.fresh("zzHolder"), named(always)))
    q.fields.append(SField(inj.fresh("zzHolder"), named(maybe)))

    def shared(root, ctx, info, x):
        return 1

    inj.resolvers[(always, fa)] = shared
    inj.resolvers[(maybe, fm)] = shared
    return fm


@op
def type_default_resolver_does_not_fit(rng, ir, inj):
    """The default resolver handed to ObjectType(default_resolver=...) serves every field of the type
    that has no resolver of its own: it has to accept their arguments."""
    t = new_object(ir, inj, fields=[SField(inj.fresh("zzByDefault"), named("Int"), [SInput("x", nn(named("Int")))])])
    attach(ir, inj, t)
    inj.default_resolvers[t.name] = rng.choice([lambda root, ctx, info: 1, lambda root, ctx: 1])
    return t.fields[0].name


@benign
def fitting_type_default_resolver(rng, ir, inj):
    t = new_object(ir, inj, fields=[SField(inj.fresh("zzByDefaultOk"), named("Int"), [SInput("x", nn(named("Int")))])])
    attach(ir, inj, t)
    inj.default_resolvers[t.name] = rng.choice([lambda root, ctx, info, **kw: 1, lambda root, ctx, info, x: 1])
    return None


@benign
def permissive_resolvers(rng, ir, inj):
    f = _resolver_field(ir, inj, [SInput("a", named("Int")), SInput("b", nn(named("Int"))), SInput("c", named("Int"), 3)])
    inj.resolvers[(ir.query, f)] = rng.choice([
        lambda root, ctx, info, **kw: 1,
        lambda root, ctx, info, b, c, a=None: 1,
        lambda *args, **kw: 1,
        lambda root, ctx, info, b, a=None, c=1, extra=None: 1,
    ])
    g = _resolver_field(ir, inj, [SInput("graphqlName", nn(named("Int")), python_name="py_name")])
    inj.resolvers[(ir.query, g)] = lambda root, ctx, info, py_name: 1
    # arguments that are merely *called* like the catch-all parameters
    h = _resolver_field(ir, inj, [SInput("kwargs", named("Int")), SInput("args", named("Int"))])
    inj.resolvers[(ir.query, h)] = rng.choice([lambda root, ctx, info, **kwargs: 1, lambda *args, **kwargs: 1])
    return None


class _ValueResolver(object):
    """A resolver object with value semantics (what a dataclass gives): instances compare equal whatever their
    call signature is, and a class that defines __eq__ without __hash__ is unhashable."""

    def __init__(self, fn):
        self.fn = fn
        self.__signature__ = __import__("inspect").signature(fn)

    def __call__(self, *a, **kw):
        return self.fn(*a, **kw)

    def __eq__(self, other):
        return isinstance(other, _ValueResolver)


class _HashableValueResolver(_ValueResolver):
    def __hash__(self):
        return 7


@benign
def callable_object_resolvers(rng, ir, inj):
    f = _resolver_field(ir, inj, [SInput("n", nn(named("Int")))])
    inj.resolvers[(ir.query, f)] = rng.choice([_ValueResolver, _HashableValueResolver])(lambda root, ctx, info, n: 1)
    g = _resolver_field(ir, inj, [])
    inj.resolvers[(ir.query, g)] = _HashableValueResolver(lambda root, ctx, info: 1)
    return None


@op
def resolver_objects_equal_but_only_one_fits(rng, ir, inj):
    """Two resolver objects that compare (and hash) equal, with different call signatures: each is judged by its
    own signature, in whichever order the fields come."""
    good = _resolver_field(ir, inj, [])
    bad = _resolver_field(ir, inj, [SInput("needed", nn(named("Int")))])
    pair = [(good, _HashableValueResolver(lambda root, ctx, info: 1)), (bad, _HashableValueResolver(lambda root, ctx, info: 1))]
    for f, r in pair:
        inj.resolvers[(ir.query, f)] = r
    if rng.random() < 0.5:
        # the misfit comes first in the field list
        q = ir.types[ir.query]
        fg, fb = q.field(good), q.field(bad)
        i, j = q.fields.index(fg), q.fields.index(fb)
        q.fields[i], q.fields[j] = fb, fg
    return bad


def build(ir, inj, order_rng=None):
    names = list(ir.types)
    if order_rng is not None:
        order_rng.shuffle(names)
    return S.build_code_schema(ir, resolver_for=lambda t, f: inj.resolvers.get((t, f)),
                               default_resolver_for=lambda t: inj.default_resolvers.get(t), order=names)[0]


def outcome_of(schema):
    from py_gql.exc import SchemaValidationError
    from py_gql.schema.validation import validate_schema

    try:
        validate_schema(schema)
        return ("valid", [])
    except SchemaValidationError as e:
        return ("invalid", [str(x) for x in e.errors])


def run(ctx):
    from py_gql.exc import SchemaError, SchemaValidationError
    from py_gql.schema.validation import validate_schema

    rng = ctx.rng("cases")
    for ci in range(ctx.n(150)):
        base = S.generate(rng)
        has_iface = any(t.kind == "interface" for t in base.types.values())
        # 1. valid schemas (+ benign additions) in several orderings
        ir = S.clone(base)
        inj = Inj()
        for b in BENIGN:
            if rng.random() < 0.7:
                b(rng, ir, inj)
        sdl = S.to_sdl(ir)[0]
        for k in range(4):
            ctx.evaluated()
            ctx.count("valid_schemas_validated")
            if has_iface or inj.resolvers:
                ctx.mark_nontrivial([sdl, "order", k])
            try:
                schema = build(ir, inj, rng if k else None)
            except Exception as e:
                ctx.mark_inconclusive("harness could not build a valid schema: %r" % (e,))
                break
            out = outcome_of_safe(ctx, schema, {"schema_sdl": sdl, "ordering": k})
            if out is None:
                break
            if out[0] != "valid":
                ctx.violation("valid-schema-rejected", {"schema_sdl": sdl, "ordering": k}, repr(out[1][:3]))
                break
        # 2. injected violations, singly and combined
        for ri in range(10):
            ir = S.clone(base)
            inj = Inj()
            k = rng.choice([1, 1, 1, 2, 3, 4])
            chosen = rng.sample(OPS, k)
            needles = []
            for o in chosen:
                n = o(rng, ir, inj)
                if n:
                    needles.append((o.__name__, n))
            try:
                sdl = S.to_sdl(ir)[0]
            except Exception:
                sdl = "<unprintable>"
            witness = {"schema_sdl": sdl, "injected": needles}
            verdicts = []
            for k2 in range(3):
                ctx.evaluated()
                ctx.count("invalid_schemas_validated")
                ctx.mark_nontrivial([sdl, needles, k2])
                try:
                    schema = build(ir, inj, rng if k2 else None)
                except (SchemaError, ValueError) as e:
                    ctx.count("rejected_at_construction")
                    break
                except Exception as e:
                    ctx.violation("construction-raises:%s" % type(e).__name__, witness, repr(e)[:200])
                    break
                out = outcome_of_safe(ctx, schema, witness)
                if out is None:
                    break
                for name, needle in needles:
                    ctx.count("injected:" + name)
                # a copy of the schema gets the same verdict
                try:
                    cout = outcome_of(schema.clone())
                    ctx.count("clones_validated")
                    if cout[0] != out[0] or sorted(cout[1]) != sorted(out[1]):
                        ctx.violation("clone-verdict-differs", witness, "original %r clone %r" % (out[1][:3], cout[1][:3]))
                        break
                except Exception as e:
                    ctx.observe("clone() of an invalid schema raised %s" % type(e).__name__)
                if out[0] == "valid":
                    ctx.violation("violation-accepted:%s" % needles[0][0], witness, "no error at all")
                    break
                missing = [(name, needle) for name, needle in needles if not any(needle in m for m in out[1])]
                if missing:
                    ctx.violation("violation-not-reported:%s" % missing[0][0], witness,
                                  "injected %r, messages %r" % (missing, out[1][:6]))
                    break
                for name, needle in needles:
                    ctx.count("detected:" + name)
                # the option that switches the resolver-signature rule off leaves every other rule on
                try:
                    validate_schema(schema, enable_resolver_validation=False)
                    light = []
                except SchemaValidationError as e:
                    light = [str(x) for x in e.errors]
                ctx.count("validated_without_resolver_rule")
                lost = [(name, needle) for name, needle in needles
                        if "resolver" not in name and not any(needle in m for m in light)]
                if lost:
                    ctx.violation("violation-not-reported-without-resolver-rule:%s" % lost[0][0], witness,
                                  "injected %r, messages %r" % (lost, light[:6]))
                    break
                verdicts.append(sorted(set(n for n, needle in needles if any(needle in m for m in out[1]))))
            if len(set(map(tuple, verdicts))) > 1:
                ctx.violation("verdict-depends-on-type-order", witness, repr(verdicts))
        # 3. histories: resolver registrations between validate() calls
        ir = S.clone(base)
        inj = Inj()
        q = ir.types[ir.query]
        f = SField("zzHistory", named("Int"), [SInput("arg", nn(named("Int")))])
        q.fields.append(f)
        schema = build(ir, inj)
        good = [lambda root, ctx, info, arg: 1, lambda root, ctx, info, **kw: 1]
        bad = [lambda root, ctx, info: 1, lambda root, ctx: 1, lambda root, ctx, info, arg, more: 1]
        steps = []
        sdl = S.to_sdl(ir)[0]
        n_validate = 0
        for step in range(rng.randint(3, 8)):
            kind = rng.choice(["good", "bad", "good-default", "bad-default", "validate", "validate"])
            try:
                if kind == "good":
                    schema.register_resolver(ir.query, "zzHistory", rng.choice(good), allow_override=True)
                elif kind == "bad":
                    schema.register_resolver(ir.query, "zzHistory", rng.choice(bad), allow_override=True)
                elif kind == "good-default":
                    schema.register_default_resolver(ir.query, lambda root, ctx, info, **kw: None, allow_override=True)
                elif kind == "bad-default":
                    schema.register_default_resolver(ir.query, lambda root, ctx: None, allow_override=True)
            except Exception as e:
                ctx.violation("history:registration-raises:%s" % type(e).__name__, {"schema_sdl": sdl, "steps": steps + [kind]}, repr(e)[:200])
                break
            steps.append(kind)
            ctx.evaluated()
            ctx.count("history_steps")
            try:
                schema.validate()
                cached = "valid"
            except SchemaValidationError:
                cached = "invalid"
            fresh = outcome_of(schema)[0]
            n_validate += 1
            if n_validate >= 2:
                ctx.mark_nontrivial([sdl, steps])
            if cached != fresh:
                ctx.violation("history:validate()-differs-from-fresh-validation", {"schema_sdl": sdl, "steps": steps},
                              "validate() says %s, validate_schema() says %s" % (cached, fresh))
                break
        ctx.sample("schema", {"sdl": sdl[:300], "history": steps})
    ctx.require("valid_schemas_validated", 20)
    ctx.require("invalid_schemas_validated", 50)
    ctx.require("history_steps", 20)


def outcome_of_safe(ctx, schema, witness):
    try:
        return outcome_of(schema)
    except Exception as e:
        ctx.violation("validate-raises:%s" % type(e).__name__, witness, repr(e)[:300])
        return None
