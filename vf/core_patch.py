# -*- coding: utf-8 -*-
"""patch_everywhere: rebind every module attribute that *is* `orig` (py-gql binds
helpers with ``from x import f``, which a decorator on the defining module would
miss); counts evaluations so a monitor that was never reached is inconclusive."""
import sys


def patch_everywhere(orig, wrapper, prefix="py_gql"):
    n = 0
    for name, mod in list(sys.modules.items()):
        if mod is None or not name.startswith(prefix):
            continue
        for attr, val in list(vars(mod).items()):
            if val is orig:
                setattr(mod, attr, wrapper)
                n += 1
    return n
