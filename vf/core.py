# -*- coding: utf-8 -*-
"""
Shared run-time context for all checks: seeded RNG derivation, counters,
distinct/non-trivial accounting, violation / known-finding classification,
evidence writing and shard merging.

Verdicts are three-valued (DESIGN.md section 6):

* exit 0  held on everything explored (KNOWN-FINDING lines for listed findings)
* exit 1  ``VIOLATION property=<id> replay=<path>`` for an unlisted violation
* exit 2  ``INCONCLUSIVE`` (deciding monitor not reached, shard died, watchdog)
"""
import collections
import hashlib
import json
import os
import random
import re
import sys
import time
import traceback

from . import VERIF

MAX_WITNESSES_PER_KEY = 3
MAX_SAMPLES_PER_CLASS = 3
MAX_SAMPLES = 12


def h64(obj) -> str:
    """Stable 64-bit hash of a JSON-able object (hash-seed independent)."""
    if not isinstance(obj, (str, bytes)):
        obj = json.dumps(obj, sort_keys=True, default=repr, ensure_ascii=True)
    if isinstance(obj, str):
        obj = obj.encode("utf-8", "surrogatepass")
    return hashlib.blake2b(obj, digest_size=8).hexdigest()


def jsonable(obj, depth=0):
    """Best-effort conversion of a witness to something json.dump accepts."""
    if depth > 12:
        return repr(obj)
    if obj is None or isinstance(obj, (bool, int, str)):
        if isinstance(obj, str):
            # lone surrogates cannot be written as UTF-8
            try:
                obj.encode("utf-8")
            except UnicodeEncodeError:
                return {"__surrogate_str__": obj.encode("utf-8", "surrogatepass").hex()}
        return obj
    if isinstance(obj, float):
        if obj != obj or obj in (float("inf"), float("-inf")):
            return {"__float__": repr(obj)}
        return obj
    if isinstance(obj, bytes):
        return {"__bytes__": obj.hex()}
    if isinstance(obj, dict):
        return {str(k): jsonable(v, depth + 1) for k, v in obj.items()}
    if isinstance(obj, (list, tuple, set, frozenset)):
        return [jsonable(v, depth + 1) for v in obj]
    return repr(obj)


def unjson(obj):
    """Inverse of jsonable for the special encodings."""
    if isinstance(obj, dict):
        if set(obj) == {"__surrogate_str__"}:
            return bytes.fromhex(obj["__surrogate_str__"]).decode("utf-8", "surrogatepass")
        if set(obj) == {"__bytes__"}:
            return bytes.fromhex(obj["__bytes__"])
        if set(obj) == {"__float__"}:
            return float(obj["__float__"])
        return {k: unjson(v) for k, v in obj.items()}
    if isinstance(obj, list):
        return [unjson(v) for v in obj]
    return obj


def load_findings():
    path = os.path.join(VERIF, "known_findings.json")
    if not os.path.exists(path):
        return {}
    with open(path) as f:
        doc = json.load(f)
    out = {}
    for entry in doc.get("findings", []):
        out[entry["key"]] = entry
    return out


class Ctx:
    """Per-process accumulation of what the monitors observed."""

    def __init__(self, prop, tier="quick", seed=0, shard=0, nshards=1, scale=1.0):
        self.prop = prop
        self.tier = tier
        self.seed = seed
        self.shard = shard
        self.nshards = nshards
        self.scale = scale
        self.counters = collections.Counter()
        self.nontrivial = set()
        self.samples = collections.OrderedDict()  # class -> [sample]
        self.violations = collections.OrderedDict()  # key -> [witness]
        self.violation_counts = collections.Counter()
        self.observations = collections.OrderedDict()  # key -> {"count": n, "examples": []}
        self.abstained = collections.Counter()
        self.inconclusive = []
        self.requirements = {}
        self.extra = {}
        self.t0 = time.time()

    # -- randomness -----------------------------------------------------
    def rng(self, *key) -> random.Random:
        return random.Random(
            "%s:%s:%s:%s" % (self.prop, self.seed, self.shard, ":".join(map(str, key)))
        )

    def n(self, base: int) -> int:
        """Case count for this shard: base scaled by tier."""
        return max(1, int(base * self.scale))

    # -- accounting -----------------------------------------------------
    def count(self, key, n=1):
        self.counters[key] += n

    def evaluated(self, n=1):
        self.counters["evaluations"] += n

    def mark_nontrivial(self, case):
        self.nontrivial.add(h64(case))

    def sample(self, cls, obj):
        lst = self.samples.setdefault(cls, [])
        if len(lst) < MAX_SAMPLES_PER_CLASS:
            lst.append(jsonable(obj))

    def abstain(self, key, n=1):
        self.abstained[key] += n

    def observe(self, key, example=None):
        slot = self.observations.setdefault(key, {"count": 0, "examples": []})
        slot["count"] += 1
        if example is not None and len(slot["examples"]) < 3:
            slot["examples"].append(jsonable(example))

    def violation(self, key, witness, detail=""):
        """Record a violation under a *mechanism* key (never a hash/seed)."""
        if not key.startswith(self.prop + ":"):
            key = "%s:%s" % (self.prop, key)
        self.violation_counts[key] += 1
        lst = self.violations.setdefault(key, [])
        if len(lst) < MAX_WITNESSES_PER_KEY:
            lst.append({"witness": jsonable(witness), "detail": str(detail)[:2000]})

    def mark_inconclusive(self, reason):
        self.inconclusive.append(str(reason))

    def require(self, counter, minimum=1):
        """The deciding monitor must have been evaluated at least `minimum` times (judged on the
        counters merged over all shards, in finish())."""
        self.requirements[counter] = max(self.requirements.get(counter, 0), minimum)

    # -- (de)serialisation for shards ------------------------------------
    def dump(self):
        return {
            "prop": self.prop,
            "shard": self.shard,
            "counters": dict(self.counters),
            "nontrivial": sorted(self.nontrivial),
            "samples": self.samples,
            "violations": self.violations,
            "violation_counts": dict(self.violation_counts),
            "observations": self.observations,
            "abstained": dict(self.abstained),
            "inconclusive": self.inconclusive,
            "requirements": self.requirements,
            "extra": jsonable(self.extra),
            "wall_s": time.time() - self.t0,
        }

    def absorb(self, d):
        self.counters.update(d["counters"])
        self.nontrivial.update(d["nontrivial"])
        for cls, lst in d["samples"].items():
            mine = self.samples.setdefault(cls, [])
            for s in lst:
                if len(mine) < MAX_SAMPLES_PER_CLASS:
                    mine.append(s)
        for key, lst in d["violations"].items():
            mine = self.violations.setdefault(key, [])
            for w in lst:
                if len(mine) < MAX_WITNESSES_PER_KEY:
                    mine.append(w)
        self.violation_counts.update(d["violation_counts"])
        for key, slot in d["observations"].items():
            mine = self.observations.setdefault(key, {"count": 0, "examples": []})
            mine["count"] += slot["count"]
            for e in slot["examples"]:
                if len(mine["examples"]) < 3:
                    mine["examples"].append(e)
        self.abstained.update(d["abstained"])
        self.inconclusive.extend(d["inconclusive"])
        for k, v in d.get("requirements", {}).items():
            self.requirements[k] = max(self.requirements.get(k, 0), v)
        for k, v in d.get("extra", {}).items():
            if isinstance(v, (int, float)) and isinstance(self.extra.get(k, 0), (int, float)):
                self.extra[k] = self.extra.get(k, 0) + v
            elif isinstance(v, list):
                cur = self.extra.setdefault(k, [])
                for item in v:
                    if item not in cur:
                        cur.append(item)
            elif isinstance(v, dict):
                cur = self.extra.setdefault(k, {})
                for kk, vv in v.items():
                    if isinstance(vv, (int, float)) and isinstance(cur.get(kk, 0), (int, float)):
                        cur[kk] = cur.get(kk, 0) + vv
                    else:
                        cur.setdefault(kk, vv)
            else:
                self.extra.setdefault(k, v)


def _safe(name):
    return re.sub(r"[^A-Za-z0-9_.-]+", "_", name)[:120]


def finish(ctx: Ctx, rule: str, assumptions=(), level="exploration", write=True) -> int:
    """Classify, write evidence + replay files, print verdict lines, return exit code."""
    findings = load_findings()
    known_seen, new = [], []
    for key in ctx.violations:
        entry = findings.get(key)
        if entry is not None and entry.get("status") == "known" and entry.get("property") == ctx.prop:
            known_seen.append(key)
        else:
            new.append(key)

    replay_dir = os.path.join(VERIF, "replay", ctx.prop)
    replay_paths = {}
    if write and os.path.isdir(replay_dir):
        for old_file in os.listdir(replay_dir):
            if old_file.endswith(".json"):
                os.unlink(os.path.join(replay_dir, old_file))
    if new and write:
        os.makedirs(replay_dir, exist_ok=True)
        for key in new:
            path = os.path.join(replay_dir, _safe(key) + ".json")
            with open(path, "w") as f:
                json.dump(
                    {
                        "property": ctx.prop,
                        "key": key,
                        "seed": ctx.seed,
                        "tier": ctx.tier,
                        "count": ctx.violation_counts[key],
                        "witnesses": ctx.violations[key],
                    },
                    f,
                    indent=1,
                )
            replay_paths[key] = path

    samples = []
    for cls, lst in ctx.samples.items():
        for s in lst:
            if len(samples) < MAX_SAMPLES or len([x for x in samples if x["class"] == cls]) == 0:
                samples.append({"class": cls, "case": s})
    samples = samples[: MAX_SAMPLES * 3]

    inconclusive = list(ctx.inconclusive)
    for counter, minimum in sorted(ctx.requirements.items()):
        if ctx.counters[counter] < minimum:
            inconclusive.append("counter %s=%d below required %d (deciding monitor not reached often enough)"
                                % (counter, ctx.counters[counter], minimum))
    if ctx.counters["evaluations"] < 1:
        inconclusive.append("no evaluations")
    if len(ctx.nontrivial) < 2:
        inconclusive.append("fewer than 2 distinct non-trivial cases")

    coverage = {
        "evaluations": int(ctx.counters["evaluations"]),
        "distinct_nontrivial": len(ctx.nontrivial),
        "rule": rule,
        "samples": samples or [{"class": "none", "case": None}],
        "counters": {k: int(v) for k, v in sorted(ctx.counters.items())},
        "abstained": dict(ctx.abstained),
        "observations": ctx.observations,
        "known_findings_observed": {k: ctx.violation_counts[k] for k in known_seen},
        "new_violation_keys": {k: ctx.violation_counts[k] for k in new},
        "inconclusive_reasons": inconclusive,
        "shards": ctx.nshards,
        "exhaustive": False,
    }
    coverage.update(jsonable(ctx.extra))
    evidence = {
        "property_id": ctx.prop,
        "tier": ctx.tier,
        "seed": int(ctx.seed),
        "level": level,
        "coverage": coverage,
        "assumptions": list(assumptions),
        "wall_s": round(time.time() - ctx.t0, 3),
        "violations": len(new),
    }
    if write:
        os.makedirs(os.path.join(VERIF, "evidence"), exist_ok=True)
        tmp = os.path.join(VERIF, "evidence", ctx.prop + ".json.tmp")
        with open(tmp, "w") as f:
            json.dump(evidence, f, indent=1, sort_keys=False)
        os.replace(tmp, os.path.join(VERIF, "evidence", ctx.prop + ".json"))

    for key in known_seen:
        print(
            "KNOWN-FINDING: property=%s %s (%d observations) %s"
            % (ctx.prop, key, ctx.violation_counts[key], findings[key].get("what", ""))
        )
    print(
        "%s tier=%s seed=%s evaluations=%d distinct_nontrivial=%d wall=%.1fs"
        % (
            ctx.prop,
            ctx.tier,
            ctx.seed,
            coverage["evaluations"],
            coverage["distinct_nontrivial"],
            evidence["wall_s"],
        )
    )
    for k, v in sorted(ctx.counters.items()):
        print("  counter %-40s %d" % (k, v))
    for k, v in ctx.observations.items():
        print("  observation %-36s %d" % (k, v["count"]))
    for k, v in ctx.abstained.items():
        print("  abstained %-38s %d" % (k, v))
    if new:
        for key in new:
            w = ctx.violations[key][0]
            print("  violation key=%s count=%d detail=%s" % (key, ctx.violation_counts[key], ascii(w["detail"][:300])))
            print("VIOLATION property=%s replay=%s" % (ctx.prop, replay_paths.get(key, "-")))
        for r in inconclusive[:5]:
            print("  (also inconclusive: %s)" % ascii(r[:600]))
        return 1
    if inconclusive:
        for r in inconclusive[:10]:
            print("INCONCLUSIVE property=%s %s" % (ctx.prop, r))
        return 2
    print("HELD property=%s on everything explored" % ctx.prop)
    return 0


def guarded(ctx, key_prefix, witness, fn, *args, **kwargs):
    """Run harness code; a crash of *harness* code must not masquerade as held."""
    try:
        return fn(*args, **kwargs)
    except Exception:  # pragma: no cover - harness bug
        ctx.mark_inconclusive("harness error in %s: %s" % (key_prefix, traceback.format_exc()[-800:]))
        return None
