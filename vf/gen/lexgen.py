# -*- coding: utf-8 -*-
"""
G-LEX: token-level material. Values first, spelling second: a string token is
generated from the *value* it must decode to plus a random choice of escape vs
literal per character, so the expected decoded value is known without asking
any lexer.
"""
KEYWORDS = [
    "on", "query", "mutation", "subscription", "fragment", "true", "false", "null",
    "implements", "extend", "schema", "scalar", "type", "interface", "union", "enum",
    "input", "directive",
]
PLAIN_NAMES = ["a", "b", "c", "x", "id", "name", "foo", "Bar", "_", "_x", "a1", "A_B", "__t",
               "Int", "String", "T", "U", "f0", "zz9", "onn", "nul", "tru", "e1", "E", "e"]

HOSTILE_CHARS = [
    '"', "\\", "/", "\b", "\f", "\n", "\r", "\t", " ", "a", "Z", "0", "u", "é", "\u00a0",
    "\u0085", "\u2028", "\u2029", "\u3000", "\ufeff", "\uffff", "\u0660", "²", "\U0001f600",
    "\U00010000", "#", ",", "{", "}", "'", "`", "\x7f",
]


def name(rng, allow_keywords=True, exclude=()):
    for _ in range(50):
        r = rng.random()
        if allow_keywords and r < 0.25:
            n = rng.choice(KEYWORDS)
        elif r < 0.85:
            n = rng.choice(PLAIN_NAMES)
        else:
            n = rng.choice("_abcXYZ") + "".join(
                rng.choice("_abcxyzABC0123456789") for _ in range(rng.randint(0, 6))
            )
        if n not in exclude:
            return n
    return "zz"


def int_text(rng):
    r = rng.random()
    if r < 0.2:
        body = "0"
    elif r < 0.5:
        body = str(rng.randint(1, 9))
    elif r < 0.7:
        body = rng.choice(["2147483647", "2147483648", "9007199254740993", "10", "100"])
    else:
        body = rng.choice("123456789") + "".join(rng.choice("0123456789") for _ in range(rng.randint(0, 8)))
    return ("-" if rng.random() < 0.3 else "") + body


def float_text(rng):
    ip = int_text(rng)
    frac = "." + "".join(rng.choice("0123456789") for _ in range(rng.randint(1, 4)))
    exp = rng.choice("eE") + rng.choice(["", "+", "-"]) + "".join(
        rng.choice("0123456789") for _ in range(rng.randint(1, 3))
    )
    r = rng.random()
    if r < 0.4:
        return ip + frac
    if r < 0.7:
        return ip + exp
    return ip + frac + exp


# values that *look like* escape sequences: a decoder working in several passes re-reads them
ESCAPE_LOOKALIKES = ["\\u0041", "\\n", "\\\\", "a\\tb", "\\\"", "\\u00e9x", "\\\\u0041", "\\u005Cn", "x\\", "\\/"]


# surrogate code units are characters of their own in a June-2018 document, raw or escaped, alone or in pairs
SURROGATE_VALUES = ["\ud83d\ude00", "\ud83d", "\ude00x", "a\udc00\ud800", "\ud83d\ude00\ud83d\ude00", "\ud83d \ude00"]


def string_value(rng, maxlen=8, hostile=True):
    if hostile and rng.random() < 0.12:
        return rng.choice(ESCAPE_LOOKALIKES)
    if hostile and rng.random() < 0.05:
        return rng.choice(SURROGATE_VALUES)
    n = rng.choice([0, 0, 1, 1, 2, 3, maxlen])
    chars = []
    for _ in range(rng.randint(0, n) if n else 0):
        if hostile and rng.random() < 0.5:
            chars.append(rng.choice(HOSTILE_CHARS))
        else:
            chars.append(rng.choice("abc XYZ09_-.,"))
    return "".join(chars)


_ESC = {'"': '\\"', "\\": "\\\\", "\b": "\\b", "\f": "\\f", "\n": "\\n", "\r": "\\r", "\t": "\\t"}


def quoted_string_text(rng, value):
    """Spell `value` as a quoted StringValue token; returns text that decodes to value."""
    out = ['"']
    for ch in value:
        o = ord(ch)
        must_escape = ch in '"\\\n\r' or (o < 0x20 and ch != "\t")
        if ch in _ESC and (must_escape or rng.random() < 0.5) and rng.random() < 0.8:
            out.append(_ESC[ch])
        elif ch == "/" and rng.random() < 0.5:
            out.append("\\/")
        elif must_escape or (o <= 0xFFFF and rng.random() < 0.15):
            hx = "%04x" % o
            if rng.random() < 0.5:
                hx = hx.upper()
            out.append("\\u" + hx)
        else:
            out.append(ch)
    out.append('"')
    return "".join(out)


def block_string_raw(rng):
    """Raw block-string content (before BlockStringValue), hostile layout."""
    r = rng.random()
    if r < 0.1:
        return ""
    nl = lambda: rng.choice(["\n", "\n", "\r", "\r\n"])  # noqa: E731
    ws_like = [" ", "  ", "\t", "    ", "\u00a0", "\u2028", "\u2029", "\u0085", "\u3000", "\x0b", "\x0c", "\x1c"]
    parts = []
    nlines = rng.randint(1, 5)
    for li in range(nlines):
        ind = "".join(rng.choice([" ", " ", "\t", "  "]) for _ in range(rng.randint(0, 4)))
        if rng.random() < 0.2:
            ind += rng.choice(ws_like)
        kind = rng.random()
        if kind < 0.25:
            body = ""
        elif kind < 0.35:
            body = rng.choice(ws_like)
        else:
            body = "".join(
                rng.choice(["a", "b", " ", "\t", '"', '""', "\\", '\\"""', "é", "\U0001f600", "x y", "#", "\u2028", "\u00a0", "\u0085"])
                for _ in range(rng.randint(1, 5))
            )
        parts.append(ind + body)
        if li < nlines - 1:
            parts.append(nl())
    if rng.random() < 0.3:
        parts.append(nl())
    raw = "".join(parts)
    return raw


def block_string_text(rng, raw=None):
    """Returns (token_text, raw_value_after_escape_processing)."""
    if raw is None:
        raw = block_string_raw(rng)
    # make the raw content lexable: no unescaped triple quote, may not end with a quote
    # (would merge with the terminator), control characters other than \t\n\r excluded
    raw = "".join(c for c in raw if ord(c) >= 0x20 or c in "\t\n\r")
    text = raw.replace('\\"""', "\0").replace('"""', '\\"""').replace("\0", '\\"""')
    while text.endswith('"') and not text.endswith('\\"""'):
        text = text[:-1]
    # a raw text ending in backslash is fine: `\` followed by `"""` would read as escape!
    if text.endswith("\\"):
        text = text + " "
    value_raw = text.replace('\\"""', '"""')
    return '"""' + text + '"""', value_raw


TRIVIA = [" ", " ", " ", "\n", "\n", "\t", ",", ", ", "\r\n", "\r", "  ", "\ufeff", " ,, ", "\n\n"]


def comment(rng):
    body = "".join(
        rng.choice(["a", " ", "#", '"', "\\", "\t", "é", "\u2028", "\U0001f600", "{", "}", '"""', "\ufeff", "x"])
        for _ in range(rng.randint(0, 6))
    )
    return "#" + body + rng.choice(["\n", "\r", "\r\n"])


NAME_CONT = set("_0123456789abcdefghijklmnopqrstuvwxyzABCDEFGHIJKLMNOPQRSTUVWXYZ")


def needs_sep(a, b):
    if not a or not b:
        return False
    if a[-1] in NAME_CONT and (b[0] in NAME_CONT or b[0] == "."):
        return True
    if a[-1] == '"' and b[0] == '"':
        return True
    if a[-1] == "." and b[0] == ".":
        return True
    return False


def render(rng, tokens, style=None):
    """Join token texts with random insignificant trivia. Returns text."""
    if style is None:
        style = rng.choice(["min", "space", "wild", "wild", "lines"])
    out = []
    prev = ""
    if style == "wild" and rng.random() < 0.3:
        out.append(rng.choice(["\ufeff", "\n", " ", ",", comment(rng)]))
    for t in tokens:
        if style == "min":
            sep = " " if needs_sep(prev, t) else ""
        elif style == "space":
            sep = " "
        elif style == "lines":
            sep = rng.choice([" ", "\n  ", "\n"])
        else:
            r = rng.random()
            if r < 0.25 and not needs_sep(prev, t):
                sep = ""
            elif r < 0.85:
                sep = rng.choice(TRIVIA)
            else:
                sep = rng.choice(TRIVIA) + comment(rng)
        out.append(sep if prev else ("" if style != "wild" else ""))
        out.append(t)
        prev = t
    if style == "wild" and rng.random() < 0.3:
        out.append(rng.choice(["\n", " ", ",", "#end", "\ufeff", "# c\n"]))
    return "".join(out)
