# -*- coding: utf-8 -*-
"""
G-MUT: text- and token-level mutation of generated documents, plus small-scope
exhaustive enumeration of token sequences.
"""
import itertools

from . import lexgen as L

INSERT_CHARS = [
    '"', '""', '"""', "\\", "\\u", "\\u00", "\\u12G4", "\\u٠٠٤١", "\\x", "{", "}", "(", ")", "[", "]",
    "!", "$", "@", ":", "=", "|", "&", "...", "..", ".", "-", "+", "0", "00", "1e05", "1e", "1.",
    ".5", "0x1", "1_0", "1a", "٣", "²", "é", " ", " ", "\x00", "\x07", "\x0b", "\x7f",
    "﻿", "#", ",", "\n", "\r", "on", "null", "true", "extend", "implements", "fragment",
    '"on"', '"implements"', '"extend"', '"schema"', '"type"', '"query"', '"fragment"', "\U0001f600",
    "\ud83d",
]

KEYWORD_STRINGS = {"on", "implements", "extend", "schema", "type", "query", "fragment", "scalar",
                   "interface", "union", "enum", "input", "directive", "mutation", "subscription"}


def token_mutants(rng, tokens, k=6):
    """k mutated token lists (rendered later): delete / duplicate / swap / move /
    keyword->string substitution / insert foreign token."""
    out = []
    n = len(tokens)
    if n == 0:
        return out
    for _ in range(k):
        t = list(tokens)
        op = rng.choice(["del", "dup", "swap", "ins", "kwstr", "repl", "delrange"])
        i = rng.randrange(n)
        if op == "del":
            del t[i]
        elif op == "dup":
            t.insert(i, t[i])
        elif op == "swap":
            j = rng.randrange(n)
            t[i], t[j] = t[j], t[i]
        elif op == "ins":
            t.insert(i, rng.choice(INSERT_CHARS))
        elif op == "repl":
            t[i] = rng.choice(INSERT_CHARS + tokens)
        elif op == "delrange":
            j = min(n, i + rng.randint(1, 4))
            del t[i:j]
        else:
            cands = [x for x in range(n) if t[x] in KEYWORD_STRINGS]
            if cands:
                x = rng.choice(cands)
                t[x] = '"%s"' % t[x]
            else:
                t.insert(i, rng.choice(['"on"', '"implements"']))
        out.append((op, t))
    return out


def char_mutants(rng, text, k=4):
    out = []
    for _ in range(k):
        op = rng.choice(["ins", "del", "repl", "trunc"])
        if not text:
            out.append(("ins", rng.choice(INSERT_CHARS)))
            continue
        i = rng.randrange(len(text) + 1)
        if op == "ins":
            out.append((op, text[:i] + rng.choice(INSERT_CHARS) + text[i:]))
        elif op == "del":
            j = min(len(text), i + rng.randint(1, 3))
            out.append((op, text[:i] + text[j:]))
        elif op == "repl":
            j = min(len(text), i + 1)
            out.append((op, text[:i] + rng.choice(INSERT_CHARS) + text[j:]))
        else:
            out.append((op, text[:i]))
    return out


def prefixes(text, limit=400):
    n = len(text)
    if n <= limit:
        idx = range(n)
    else:
        step = n / float(limit)
        idx = sorted(set(int(i * step) for i in range(limit)))
    for i in idx:
        yield text[:i]


REPRESENTATIVES = {
    "executable": ["{", "}", "(", ")", ":", "...", "on", "a", "query", "fragment", "$", "@", "1",
                   '"s"', "[", "]", "!", "=", "null", "-1.5e3", '"""b"""', "true", "T", "|"],
    "typesystem": ["{", "}", "(", ")", ":", "type", "a", "implements", "&", "extend", "schema",
                   "query", "@", "=", "|", "union", "enum", "input", '"d"', "directive", "on",
                   "FIELD", "scalar", "interface", "1", "[", "]", "!", "true", "null"],
    "value": ["[", "]", "{", "}", ":", "a", "$", "1", "-0", "1.0", '"s"', '"""b"""', "true",
              "null", "on", ",", "#c\n", "@", "!", "..."],
    "type": ["[", "]", "!", "a", "Int", "on", "$", "1", '"s"', ":", "null"],
}


def token_sequences(start, max_len):
    reps = REPRESENTATIVES[start]
    for n in range(1, max_len + 1):
        for seq in itertools.product(reps, repeat=n):
            yield seq


def sample_token_sequence(rng, start, length):
    reps = REPRESENTATIVES[start]
    return tuple(rng.choice(reps) for _ in range(length))


HOSTILE_LEXICAL = [
    # numbers
    "0", "-0", "00", "-00", "01", "1e05", "1E+007", "1e-0", "1e", "1e+", "1.", "1.e1", ".1", "-", "--1",
    "+1", "1.0.0", "1..2", "1...", "1e1e1", "1e1.5", "0x1F", "0b1", "1_000", "1a", "1_", "0e0", "0.0e00",
    "1٣", "٣", "1²", "²", "１２", "-٣", "1.٣", "1e٣", "123456789012345678901234567890", "1.5e+10a",
    "1 .5", "1﻿2", "0xF1", "1.23f", "1.2e3.4", "1.2e3e", "1.0e", "1.0e-", "9 9", "1,2",
    # names
    "a²", "a٣", "é", "aé", "_", "__", "a-b", "a.b", "a b", "a b", "a\x00b", "a\x0bb", "a\x0cb", "a\x7fb",
    # strings & escapes
    '""', '"', '"a', '"\\', '"\\"', '"\\u', '"\\u0', '"\\u00', '"\\u004', '"\\u0041', '"\\u0041"',
    '"\\u00g1"', '"\\u٠٠٤١"', '"\\u004１"', '"\\uD83D"', '"\\uD83D\\uDE00"', '"\\x41"', '"\\a"',
    '"\\U0041"', '"\\u{41}"', '"\\u 041"', '"\\u+041"', '"\\u-041"', '"\\u0_41"', '"\\', '"\\n', '"\n"', '"\r"', '"a\\\nb"',
    '"\t"', '"\x00"', '"\x1f"', '"\x7f"', '" "', '"\u0085"', '"\U0001f600"', '"\\/"', '"\\b\\f\\n\\r\\t"',
    '"""', '""""', '"""""', '""""""', '"""""""', '""""""""', '"""a', '"""a"', '"""a""', '"""a"""', '"""a\\"""',
    '"""a\\""""', '"""\\"""', '"""\\""""""', '"""\\"""', '""" """', '"""\n"""', '"""\x00"""', '"""\\"', '"""a\\',
    '""""a"""', '"" ""', '""""""""""""',
    # punctuation / trivia
    ".", "..", "...", "....", ". . .", "?", "%", "^", "~", "`", "'", "\\", "/", "*", ";", "<", ">",
    "﻿", "﻿﻿", "#", "#\n", "#\x00\n", "#   x", "#a\rb", ",", ",,,", "\x00", "\x0b", "\x0c", "\x1c", "\x85",
    " ", " ", " ", "　", "\U0001f600", "\ud800",
]
