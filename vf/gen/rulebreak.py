# -*- coding: utf-8 -*-
"""
G-RULEBREAK: labelled single-rule violations applied to valid operation IRs, and
validity-preserving transforms (definition / selection / argument permutation, injective
renaming of aliases, fragments and variables, trivia re-rendering).

Every operator returns a deep copy; `label` is the name of the py_gql rule class (or a
tuple of acceptable classes where the specification's rules overlap) that must report the
violation.
"""
import collections
import copy

from ..ref.refcoerce import Var
from . import lexgen, opgen, schemair as S
from .schemair import UNSET, EnumLit, SInput


def walk_selection_lists(doc, schema):
    """Yields (selection list, scope type name, owner) for every selection set of the document."""
    def rec(sels, scope):
        yield sels, scope
        for x in sels:
            if x.kind == "field" and x.selection is not None:
                st = schema.types.get(scope)
                f = st.field(x.name) if st is not None and st.kind in ("object", "interface") else None
                if f is not None:
                    for y in rec(x.selection, S.unwrap(f.type)):
                        yield y
            elif x.kind == "inline":
                for y in rec(x.selection, x.type_cond or scope):
                    yield y
    roots = dict(schema.roots())
    for op in doc.operations:
        for y in rec(op.selection, roots[op.kind]):
            yield y + (op,)
    for fr in doc.fragments.values():
        for y in rec(fr.selection, fr.type_cond):
            yield y + (fr,)


def all_fields(doc, schema):
    out = []
    for sels, scope, owner in walk_selection_lists(doc, schema):
        for x in sels:
            if x.kind == "field":
                out.append((x, sels, scope, owner))
    return out


def op_of_owner(doc, owner):
    """Operations that (transitively) include `owner` (an operation or a fragment)."""
    if isinstance(owner, opgen.OOperation):
        return [owner]
    uses = collections.defaultdict(set)

    def spreads(sels, acc):
        for x in sels:
            if x.kind == "spread":
                acc.add(x.name)
            elif x.kind == "inline" or (x.kind == "field" and x.selection is not None):
                spreads(x.selection, acc)

    frag_uses = {}
    for fr in doc.fragments.values():
        acc = set()
        spreads(fr.selection, acc)
        frag_uses[fr.name] = acc
    out = []
    for op in doc.operations:
        acc = set()
        spreads(op.selection, acc)
        seen, todo = set(), list(acc)
        while todo:
            n = todo.pop()
            if n in seen:
                continue
            seen.add(n)
            todo.extend(frag_uses.get(n, ()))
        if owner.name in seen:
            out.append(op)
    return out


OPERATORS = []


def operator(label):
    def deco(fn):
        fn.label = label
        OPERATORS.append(fn)
        return fn
    return deco


# Each operator: fn(rng, doc (fresh deep copy), schema) -> text_suffix or True, or None when not applicable.


@operator("ExecutableDefinitionsChecker")
def type_definition_in_document(rng, doc, s):
    doc.extra_text = rng.choice(["type ZzType { a: Int }", "extend type %s { zz: Int }" % s.query, "scalar ZzScalar",
                                 "schema { query: %s }" % s.query])
    return True


@operator("UniqueOperationNameChecker")
def duplicate_operation_name(rng, doc, s):
    op = rng.choice(doc.operations)
    clone = copy.deepcopy(op)
    clone.name = op.name = op.name or "Dup"
    # fragments of the clone are shared (allowed); variables are the clone's own copies
    doc.operations.append(clone)
    return True


@operator("LoneAnonymousOperationChecker")
def anonymous_with_others(rng, doc, s):
    op = rng.choice(doc.operations)
    clone = copy.deepcopy(op)
    clone.name = None
    if op.name is None:
        op.name = "Named"
    doc.operations.append(clone)
    return True


@operator("SingleFieldSubscriptionsChecker")
def subscription_two_fields(rng, doc, s):
    if not s.subscription:
        return None
    g = opgen.OpGen(rng, s)
    g.doc = doc
    op = g.operation(kind="subscription", name="Sub%d" % len(doc.operations))
    if any(o.name is None for o in doc.operations):
        for i, o in enumerate(doc.operations):
            o.name = o.name or "N%d" % i
    op.selection.append(opgen.OField("__typename", s.subscription, "second"))
    return True


@operator("SingleFieldSubscriptionsChecker")
def subscription_two_fields_behind_a_fragment(rng, doc, s):
    """The rule is stated on the collected fields: two root fields stay two behind an inline fragment or a
    fragment spread, however many selections the operation itself writes."""
    if not s.subscription:
        return None
    g = opgen.OpGen(rng, s)
    g.doc = doc
    op = g.operation(kind="subscription", name="SubFrag%d" % len(doc.operations))
    if any(o.name is None for o in doc.operations):
        for i, o in enumerate(doc.operations):
            o.name = o.name or "N%d" % i
    two = list(op.selection) + [opgen.OField("__typename", s.subscription, "second")]
    r = rng.random()
    if r < 0.35:
        # an earlier, valid subscription spreads the same fragment: what was looked at for one operation says
        # nothing about the next
        name = "SharedRoot%d" % len(doc.fragments)
        doc.fragments[name] = opgen.OFragment(name, s.subscription, list(op.selection))
        first = opgen.OOperation("subscription", "SubFirst%d" % len(doc.operations), [opgen.OSpread(name)], copy.deepcopy(op.variables))
        doc.operations.insert(doc.operations.index(op), first)
        op.selection[:] = [opgen.OSpread(name), opgen.OField("__typename", s.subscription, "second")]
    elif r < 0.65:
        op.selection[:] = [opgen.OInline(s.subscription if rng.random() < 0.5 else None, two)]
    else:
        name = "SubRootFields%d" % len(doc.fragments)
        doc.fragments[name] = opgen.OFragment(name, s.subscription, two)
        op.selection[:] = [opgen.OSpread(name)]
    return True


@operator(("KnownTypeNamesChecker", "FragmentsOnCompositeTypesChecker", "VariablesAreInputTypesChecker"))
def unknown_type_name(rng, doc, s):
    choices = []
    for fr in doc.fragments.values():
        choices.append(("frag", fr))
    for sels, scope, owner in walk_selection_lists(doc, s):
        for x in sels:
            if x.kind == "inline" and x.type_cond:
                choices.append(("inline", x))
    for op in doc.operations:
        for i, v in enumerate(op.variables):
            choices.append(("var", (op, i)))
    if not choices:
        return None
    kind, target = rng.choice(choices)
    if kind == "var":
        op, i = target
        name, t, d = op.variables[i]
        wrap = rng.choice([lambda x: x, S.lst, S.nn, lambda x: S.lst(S.nn(x))])
        op.variables[i] = (name, wrap(S.named("NoSuchType")), UNSET)
    else:
        target.type_cond = "NoSuchType"
    return True


@operator("FragmentsOnCompositeTypesChecker")
def fragment_on_leaf_type(rng, doc, s):
    leafs = ["Int", "String"] + [t.name for t in s.types.values() if t.kind in ("enum", "scalar", "input")]
    choices = list(doc.fragments.values())
    for sels, scope, owner in walk_selection_lists(doc, s):
        choices += [x for x in sels if x.kind == "inline" and x.type_cond]
    if not choices:
        return None
    rng.choice(choices).type_cond = rng.choice(leafs)
    return True


@operator("VariablesAreInputTypesChecker")
def variable_of_output_type(rng, doc, s):
    ops = [o for o in doc.operations if o.variables]
    if not ops:
        return None
    op = rng.choice(ops)
    i = rng.randrange(len(op.variables))
    outs = [t.name for t in s.types.values() if t.kind in ("object", "interface", "union")]
    name, t, d = op.variables[i]
    op.variables[i] = (name, S.named(rng.choice(outs)), UNSET)
    return True


@operator("ScalarLeafsChecker")
def leaf_with_selection_or_composite_without(rng, doc, s):
    fields = [(x, scope) for x, sels, scope, owner in all_fields(doc, s) if x.name != "__typename"]
    if not fields:
        return None
    x, scope = rng.choice(fields)
    if x.selection is None:
        x.selection = [opgen.OField("__typename", scope)]
    else:
        x.selection = None
    return True


@operator("FieldsOnCorrectTypeChecker")
def unknown_field(rng, doc, s):
    lists = list(walk_selection_lists(doc, s))
    sels, scope, owner = rng.choice(lists)
    sels.insert(rng.randint(0, len(sels)), opgen.OField(rng.choice(["noSuchField", "zz", "__nope"]), scope))
    return True


@operator("UniqueFragmentNamesChecker")
def duplicate_fragment_name(rng, doc, s):
    if not doc.fragments:
        return None
    fr = rng.choice(list(doc.fragments.values()))
    doc.dup_fragments = [copy.deepcopy(fr)]
    return True


@operator("KnownFragmentNamesChecker")
def unknown_fragment_spread(rng, doc, s):
    sels, scope, owner = rng.choice(list(walk_selection_lists(doc, s)))
    sels.append(opgen.OSpread("NoSuchFragment"))
    return True


@operator("NoUnusedFragmentsChecker")
def unused_fragment(rng, doc, s):
    doc.fragments["UnusedFragment"] = opgen.OFragment("UnusedFragment", s.query, [opgen.OField("__typename", s.query)])
    return True


@operator("PossibleFragmentSpreadsChecker")
def impossible_inline_fragment(rng, doc, s):
    cands = []
    for sels, scope, owner in walk_selection_lists(doc, s):
        mine = set(s.possible_types(scope))
        others = [t.name for t in s.types.values() if t.kind == "object" and t.name not in mine]
        if others:
            cands.append((sels, others))
    if not cands:
        return None
    sels, others = rng.choice(cands)
    o = rng.choice(others)
    sels.append(opgen.OInline(o, [opgen.OField("__typename", o)]))
    return True


@operator("PossibleFragmentSpreadsChecker")
def impossible_fragment_spread(rng, doc, s):
    """A named fragment on an object type that cannot occur in the scope, spread there (the scope is
    often the selection set of a list / non-null typed field)."""
    cands = []
    for sels, scope, owner in walk_selection_lists(doc, s):
        mine = set(s.possible_types(scope))
        others = [t.name for t in s.types.values() if t.kind == "object" and t.name not in mine]
        if others:
            cands.append((sels, others))
    if not cands:
        return None
    sels, others = rng.choice(cands)
    o = rng.choice(others)
    name = "ImpossibleFragment%d" % len(doc.fragments)
    doc.fragments[name] = opgen.OFragment(name, o, [opgen.OField("__typename", o)])
    sels.insert(rng.randint(0, len(sels)), opgen.OSpread(name))
    return True


@operator("NoFragmentCyclesChecker")
def fragment_cycle_behind_shared_fragment(rng, doc, s):
    """A cycle of 2-4 fresh fragments in which members also spread a shared, already visited
    fragment before (or after) the spread that closes the cycle."""
    lists = list(walk_selection_lists(doc, s))
    sels, scope, owner = rng.choice(lists)
    n = rng.randint(2, 4)
    base = len(doc.fragments)
    names = ["Cycle%s%d" % ("ABCD"[i], base) for i in range(n)]
    shared = "CycleShared%d" % base
    doc.fragments[shared] = opgen.OFragment(shared, scope, [opgen.OField("__typename", scope)])
    for i, nm in enumerate(names):
        nxt = names[(i + 1) % n]
        body = [opgen.OSpread(shared), opgen.OSpread(nxt)]
        if rng.random() < 0.3:
            body.reverse()
        if rng.random() < 0.5:
            body.insert(0, opgen.OField("__typename", scope))
        doc.fragments[nm] = opgen.OFragment(nm, scope, body)
    sels.append(opgen.OSpread(names[0]))
    return True


@operator("NoFragmentCyclesChecker")
def fragment_cycle(rng, doc, s):
    if not doc.fragments:
        return None
    frs = list(doc.fragments.values())
    a = rng.choice(frs)
    # a -> b -> a needs both spreads to be type-possible (otherwise a second rule is broken too)
    partners = [f for f in frs if f is not a and set(s.possible_types(f.type_cond)) & set(s.possible_types(a.type_cond))]
    if rng.random() < 0.4 or not partners:
        a.selection.append(opgen.OSpread(a.name))
    else:
        b = rng.choice(partners)
        a.selection.append(opgen.OSpread(b.name))
        b.selection.append(opgen.OSpread(a.name))
    return True


@operator("UniqueVariableNamesChecker")
def duplicate_variable(rng, doc, s):
    ops = [o for o in doc.operations if o.variables]
    if not ops:
        return None
    op = rng.choice(ops)
    op.variables.append(rng.choice(op.variables))
    return True


@operator("NoUndefinedVariablesChecker")
def undefined_variable(rng, doc, s):
    fields = [(x, scope, owner) for x, sels, scope, owner in all_fields(doc, s) if x.name != "__typename"]
    if not fields:
        return None
    x, scope, owner = rng.choice(fields)
    x.directives = [d for d in x.directives if d[0] != "skip"] + [("skip", collections.OrderedDict([("if", Var("undefinedVar"))]))]
    return True


@operator("NoUnusedVariablesChecker")
def unused_variable(rng, doc, s):
    op = rng.choice(doc.operations)
    op.variables.append(("unusedVar", S.named("Int"), UNSET))
    return True


@operator("KnownDirectivesChecker")
def unknown_or_misplaced_directive(rng, doc, s):
    if rng.random() < 0.5:
        fields = [x for x, sels, scope, owner in all_fields(doc, s)]
        rng.choice(fields).directives.append(("noSuchDirective", collections.OrderedDict()))
    else:
        op = rng.choice(doc.operations)
        op.directives.append(("skip", collections.OrderedDict([("if", True)])))
        op.force_keyword = True
    return True


@operator("UniqueDirectivesPerLocationChecker")
def duplicate_directive(rng, doc, s):
    fields = [x for x, sels, scope, owner in all_fields(doc, s)]
    x = rng.choice(fields)
    d = ("include", collections.OrderedDict([("if", True)]))
    x.directives = [y for y in x.directives if y[0] != "include"] + [d, d]
    return True


@operator("KnownArgumentNamesChecker")
def unknown_argument(rng, doc, s):
    fields = [x for x, sels, scope, owner in all_fields(doc, s)]
    x = rng.choice(fields)
    if rng.random() < 0.7:
        x.args = collections.OrderedDict(list(x.args.items()) + [("noSuchArg", 1)])
        if x.alias is None and x.name != "__typename":
            x.alias = None
    else:
        x.directives = [y for y in x.directives if y[0] != "skip"] + [
            ("skip", collections.OrderedDict([("if", True), ("unless", False)]))]
    return True


@operator("UniqueArgumentNamesChecker")
def duplicate_argument(rng, doc, s):
    fields = [x for x, sels, scope, owner in all_fields(doc, s) if x.args]
    if not fields:
        return None
    x = rng.choice(fields)
    k = rng.choice(list(x.args))
    x.dup_args = [(k, x.args[k])]
    return True


@operator("ValuesOfCorrectTypeChecker")
def wrong_literal(rng, doc, s):
    cands = []
    for x, sels, scope, owner in all_fields(doc, s):
        st = s.types.get(scope)
        f = st.field(x.name) if st is not None and st.kind in ("object", "interface") else None
        if f is None:
            continue
        for a in f.args:
            if a.name in x.args and not isinstance(x.args[a.name], Var):
                cands.append((x, a))
    if not cands:
        return None
    x, a = rng.choice(cands)
    base = S.unwrap(a.type)
    kind = s.kind(base)
    if base in ("Int", "Float"):
        bad = rng.choice(["not a number", True, EnumLit("FOO")])
    elif base == "String":
        bad = rng.choice([1, 1.5, True, EnumLit("FOO")])
    elif base == "Boolean":
        bad = rng.choice([1, "true", EnumLit("yes")])
    elif base == "ID":
        bad = rng.choice([1.5, True])
    elif kind == "enum":
        bad = rng.choice([EnumLit("NOT_A_MEMBER"), "ENUM_AS_STRING", 1])
    elif kind == "input":
        bad = rng.choice([1, "s", collections.OrderedDict([("noSuchInputField", 1)])])
        st = s.types[base]
        req = [f for f in st.input_fields if f.type[0] == "nonnull" and not f.has_default]
        if req and rng.random() < 0.4:
            bad = collections.OrderedDict()   # required field missing
    elif kind == "scalar" and s.types[base].strict:
        bad = rng.choice([1, "untagged", True])
    else:
        if a.type[0] != "nonnull":
            return None
        bad = None
    if a.type[0] == "nonnull" and rng.random() < 0.2:
        bad = None
    x.args = collections.OrderedDict(x.args)
    x.args[a.name] = bad
    return True


@operator("ValuesOfCorrectTypeChecker")
def list_literal_for_non_list_type(rng, doc, s):
    """`[v]` where a scalar, enum or input object is expected (argument of a field or of @skip / @include)."""
    fields = all_fields(doc, s)
    if not fields:
        return None
    cands = []
    for x, sels, scope, owner in fields:
        st = s.types.get(scope)
        f = st.field(x.name) if st is not None and st.kind in ("object", "interface") else None
        if f is not None:
            for a in f.args:
                if S.nullable(a.type)[0] == "named":
                    cands.append((x, a))
    if cands and rng.random() < 0.6:
        x, a = rng.choice(cands)
        v = _sg(rng, s).input_value_for(a.type, allow_null=False)
        x.args[a.name] = [v] if rng.random() < 0.7 else [[v]]
        return True
    x = rng.choice(fields)[0]
    x.directives = [d for d in x.directives if d[0] not in ("skip", "include")]
    x.directives.append((rng.choice(["skip", "include"]), collections.OrderedDict([("if", [rng.random() < 0.5])])))
    return True


@operator("ProvidedRequiredArgumentsChecker")
def missing_required_argument(rng, doc, s):
    cands = []
    for x, sels, scope, owner in all_fields(doc, s):
        st = s.types.get(scope)
        f = st.field(x.name) if st is not None and st.kind in ("object", "interface") else None
        if f is None:
            continue
        for a in f.args:
            if a.type[0] == "nonnull" and not a.has_default and a.name in x.args:
                cands.append((x, a))
    if not cands:
        return None
    x, a = rng.choice(cands)
    x.args = collections.OrderedDict((k, v) for k, v in x.args.items() if k != a.name)
    return True


@operator("VariablesInAllowedPositionChecker")
def variable_in_wrong_position(rng, doc, s):
    """Retype a used variable so that it no longer fits its usage."""
    cands = []
    for x, sels, scope, owner in all_fields(doc, s):
        st = s.types.get(scope)
        f = st.field(x.name) if st is not None and st.kind in ("object", "interface") else None
        if f is None:
            continue
        for a in f.args:
            v = x.args.get(a.name)
            if isinstance(v, Var):
                for op in op_of_owner(doc, owner):
                    cands.append((op, v.name, a))
    if not cands:
        return None
    op, vname, a = rng.choice(cands)
    base = S.unwrap(a.type)
    other = "String" if base != "String" else "Int"
    for i, (n, t, d) in enumerate(op.variables):
        if n == vname:
            r = rng.random()
            if r < 0.4:
                nt = S.named(other)                      # different named type
            elif r < 0.7 and S.nullable(a.type)[0] != "list":
                nt = S.lst(S.nullable(a.type))            # list into non-list position
            elif a.type[0] == "nonnull" and not a.has_default:
                nt = a.type[1]                           # nullable into non-null without any default
                d = UNSET
            else:
                nt = S.named(other)
            op.variables[i] = (n, nt, UNSET)
            return True
    return None


@operator("VariablesInAllowedPositionChecker")
def nullable_variable_as_list_item_under_defaulted_argument(rng, doc, s):
    """`f(ids: [1, $v])` with `ids: [Int!] = [1]` and `$v: Int`: the default belongs to the argument,
    not to the items of a list literal written for it."""
    q = s.types[s.query]
    cands = []
    for f in q.fields:
        for a in f.args:
            base = S.nullable(a.type)
            if a.has_default and base[0] == "list" and base[1][0] == "nonnull" and base[1][1][0] == "named":
                cands.append((f, a))
    ops = [o for o in doc.operations if o.kind == "query"]
    if not cands or not ops:
        return None
    f, a = rng.choice(cands)
    op = rng.choice(ops)
    item = S.nullable(a.type)[1][1]           # the nullable item type
    op.variables.append(("itemVar", item, UNSET))
    args = _required_args(rng, s, f)
    ok = _sg(rng, s).input_value_for(S.nn(item), allow_null=False)
    args[a.name] = [ok, Var("itemVar")] if rng.random() < 0.5 else [Var("itemVar")]
    sub = None
    if s.kind(S.unwrap(f.type)) in ("object", "interface", "union"):
        sub = [opgen.OField("__typename", S.unwrap(f.type))]
    op.selection.append(opgen.OField(f.name, q.name, "itemUse", args, [], sub))
    return True


@operator("VariablesInAllowedPositionChecker")
def nullable_variable_at_defaulted_and_undefaulted_position(rng, doc, s):
    """`$v: T` (nullable, no default) is fine for `a: T! = d` (the location has a default) and wrong for
    `b: T!`: two usages that expect the same type are still two usages; in either order, anywhere in
    one operation (also as two fields of one input-object literal)."""
    per_op = {}
    for sels, scope, owner in walk_selection_lists(doc, s):
        st = s.types.get(scope)
        if not isinstance(owner, opgen.OOperation) or st is None or st.kind not in ("object", "interface"):
            continue
        wd, wo = per_op.setdefault(id(owner), (owner, {}, {}))[1:]
        for f in st.fields:
            for a in f.args:
                if a.type[0] == "nonnull":
                    (wd if a.has_default else wo).setdefault(repr(a.type), []).append((sels, scope, f, a))
    cands = []
    for owner, wd, wo in per_op.values():
        for k in sorted(set(wd) & set(wo)):
            cands.append((owner, wd[k], wo[k]))
    # the same inside one input-object literal: input I { a: T! = d, b: T! } written as {a: $v, b: $v}
    lit_cands = []
    for sels, scope, owner in walk_selection_lists(doc, s):
        st = s.types.get(scope)
        if not isinstance(owner, opgen.OOperation) or st is None or st.kind not in ("object", "interface"):
            continue
        for f in st.fields:
            for a in f.args:
                base = S.nullable(a.type)
                it = s.types.get(base[1]) if base[0] == "named" else None
                if it is None or it.kind != "input":
                    continue
                d_, r_ = {}, {}
                for x in it.input_fields:
                    if x.type[0] == "nonnull":
                        (d_ if x.has_default else r_).setdefault(repr(x.type), []).append(x)
                for k in sorted(set(d_) & set(r_)):
                    lit_cands.append((owner, sels, scope, f, a, it, d_[k][0], r_[k][0]))
    if lit_cands and (not cands or rng.random() < 0.5):
        op, sels, scope, f, a, it, xd, xr = rng.choice(lit_cands)
        op.variables.append(("maybeNull", xd.type[1], UNSET))
        lit = collections.OrderedDict()
        for x in it.input_fields:
            if x is xd or x is xr:
                lit[x.name] = Var("maybeNull")
            elif x.type[0] == "nonnull" and not x.has_default:
                lit[x.name] = _sg(rng, s).input_value_for(x.type)
        if rng.random() < 0.3:
            lit = collections.OrderedDict(reversed(list(lit.items())))
        args = collections.OrderedDict()
        for b in f.args:
            if b is a:
                args[b.name] = lit
            elif b.type[0] == "nonnull" and not b.has_default:
                args[b.name] = _sg(rng, s).input_value_for(b.type)
        sub = None
        if s.kind(S.unwrap(f.type)) in ("object", "interface", "union"):
            sub = [opgen.OField("__typename", S.unwrap(f.type))]
        sels.append(opgen.OField(f.name, scope, "useInLiteral", args, [], sub))
        return True
    if not cands:
        return None
    op, wd, wo = rng.choice(cands)
    (sels1, scope1, f1, a1), (sels2, scope2, f2, a2) = rng.choice(wd), rng.choice(wo)
    op.variables.append(("maybeNull", a1.type[1], UNSET))

    def mk(scope, f, a, alias):
        args = collections.OrderedDict()
        for b in f.args:
            if b is a:
                args[b.name] = Var("maybeNull")
            elif b.type[0] == "nonnull" and not b.has_default:
                args[b.name] = _sg(rng, s).input_value_for(b.type)
        sub = None
        if s.kind(S.unwrap(f.type)) in ("object", "interface", "union"):
            sub = [opgen.OField("__typename", S.unwrap(f.type))]
        return opgen.OField(f.name, scope, alias, args, [], sub)

    good, bad = mk(scope1, f1, a1, "useAtDefaulted"), mk(scope2, f2, a2, "useAtRequired")
    if sels1 is sels2 and rng.random() < 0.3:
        sels1.extend([bad, good])
    else:
        # the legal usage comes first in document order whenever the two lists are nested in this order
        sels1.append(good)
        sels2.append(bad)
    return True


@operator("VariablesInAllowedPositionChecker")
def fragment_variable_fits_the_first_operation_only(rng, doc, s):
    """A fragment that uses a variable is shared by two operations: the first declares the variable as the
    usage needs it, a later copy of that operation declares it with a type that does not fit. Every operation
    that reaches the usage has to be checked."""
    cands = []
    for x, sels, scope, owner in all_fields(doc, s):
        if isinstance(owner, opgen.OOperation):
            continue
        st = s.types.get(scope)
        f = st.field(x.name) if st is not None and st.kind in ("object", "interface") else None
        if f is None:
            continue
        for a in f.args:
            v = x.args.get(a.name)
            if isinstance(v, Var):
                for op in op_of_owner(doc, owner):
                    if any(n == v.name for n, _t, _d in op.variables):
                        cands.append((op, v.name, a))
    # ... or the usage is the condition of @skip / @include somewhere in a fragment
    cond = SInput("if", S.nn(S.named("Boolean")))
    for sels, scope, owner in walk_selection_lists(doc, s):
        if isinstance(owner, opgen.OOperation):
            continue
        for x in sels:
            for dname, dargs in x.directives:
                v = dargs.get("if") if dname in ("skip", "include") else None
                if isinstance(v, Var):
                    for op in op_of_owner(doc, owner):
                        if any(n == v.name for n, _t, _d in op.variables):
                            cands.append((op, v.name, cond))
    if not cands:
        return None
    op, vname, a = rng.choice(cands)
    second = copy.deepcopy(op)
    second.name = "SecondUser%d" % len(doc.operations)
    if op.name is None:
        op.name = "FirstUser%d" % len(doc.operations)
    base = S.unwrap(a.type)
    other = "String" if base != "String" else "Int"
    for i, (n, t, d) in enumerate(second.variables):
        if n == vname:
            if a.type[0] == "nonnull" and not a.has_default and rng.random() < 0.5:
                second.variables[i] = (n, a.type[1], UNSET)      # nullable into non-null without any default
            else:
                second.variables[i] = (n, S.named(other), UNSET)
    doc.operations.insert(doc.operations.index(op) + 1, second)
    return True


@operator("VariablesInAllowedPositionChecker")
def variable_at_two_differently_typed_positions(rng, doc, s):
    """One variable used at an Int position and at a String position, in either order: whatever
    its declared type, one usage does not fit."""
    q = s.types[s.query]
    ints, strs = [], []
    for f in q.fields:
        for a in f.args:
            base = S.nullable(a.type)
            if base == ("named", "Int"):
                ints.append((f, a))
            if base == ("named", "String"):
                strs.append((f, a))
    ops = [o for o in doc.operations if o.kind == "query"]
    if not ints or not strs or not ops:
        return None
    op = rng.choice(ops)
    (f1, a1), (f2, a2) = rng.choice(ints), rng.choice(strs)
    vt = rng.choice(["Int", "String"])
    op.variables.append(("twice", S.nn(S.named(vt)), UNSET))

    def mk(f, a, alias):
        args = collections.OrderedDict()
        for b in f.args:
            if b is a:
                args[b.name] = Var("twice")
            elif b.type[0] == "nonnull" and not b.has_default:
                args[b.name] = _sg(rng, s).input_value_for(b.type)
        sub = None
        if s.kind(S.unwrap(f.type)) in ("object", "interface", "union"):
            sub = [opgen.OField("__typename", S.unwrap(f.type))]
        return opgen.OField(f.name, q.name, alias, args, [], sub)

    pair = [mk(f1, a1, "useAsInt"), mk(f2, a2, "useAsString")]
    if rng.random() < 0.5:
        pair.reverse()
    op.selection.extend(pair)
    return True


@operator("OverlappingFieldsCanBeMergedChecker")
def conflicting_response_key(rng, doc, s):
    cands = []
    for sels, scope, owner in walk_selection_lists(doc, s):
        st = s.types.get(scope)
        if st is None or st.kind not in ("object", "interface"):
            continue
        fields = [x for x in sels if x.kind == "field" and x.name != "__typename"]
        if fields and len(st.fields) >= 2:
            cands.append((sels, st, fields))
    if not cands:
        return None
    sels, st, fields = rng.choice(cands)
    x = rng.choice(fields)
    others = [f for f in st.fields if f.name != x.name]
    other = rng.choice(others)
    args = collections.OrderedDict()
    for a in other.args:
        if a.type[0] == "nonnull" and not a.has_default:
            args[a.name] = _sg(rng, s).input_value_for(a.type)
    sub = None
    if s.kind(S.unwrap(other.type)) in ("object", "interface", "union"):
        sub = [opgen.OField("__typename", S.unwrap(other.type))]
    conflict = opgen.OField(other.name, st.name, x.key, args, [], sub)
    depth = rng.choice([0, 0, 1, 2, 3])
    node = conflict
    wrapped = [conflict]
    # hide the conflict behind nested fragments with multi-letter names
    for d in range(depth):
        name = "ConflictFragment%s%d" % ("ABCD"[d], len(doc.fragments))
        doc.fragments[name] = opgen.OFragment(name, st.name, wrapped)
        wrapped = [opgen.OSpread(name)]
    sels.extend(wrapped)
    return True


def _required_args(rng, s, f):
    args = collections.OrderedDict()
    for a in f.args:
        if a.type[0] == "nonnull" and not a.has_default:
            args[a.name] = _sg(rng, s).input_value_for(a.type)
    return args


def _is_leaf(s, t):
    return s.kind(S.unwrap(t)) in ("scalar", "enum")


@operator("OverlappingFieldsCanBeMergedChecker")
def conflict_between_later_duplicates(rng, doc, s):
    """Three fields under one response key: the first is compatible with each of the other two, which
    conflict with each other one level down (being mergeable is not transitive)."""
    cands = []
    for sels, scope, owner in walk_selection_lists(doc, s):
        st = s.types.get(scope)
        if st is None or st.kind not in ("object", "interface"):
            continue
        for f in st.fields:
            target = s.types.get(S.unwrap(f.type))
            if target is not None and target.kind in ("object", "interface"):
                leafs = [g for g in target.fields if not [a for a in g.args if a.type[0] == "nonnull" and not a.has_default]]
                if len(leafs) >= 2:
                    cands.append((sels, st, f, target, leafs))
    if not cands:
        return None
    sels, st, f, target, leafs = rng.choice(cands)
    g, h = rng.sample(leafs, 2)
    args = _required_args(rng, s, f)

    def sub(x):
        inner = None
        if s.kind(S.unwrap(x.type)) in ("object", "interface", "union"):
            inner = [opgen.OField("__typename", S.unwrap(x.type))]
        return opgen.OField(x.name, target.name, "lab", collections.OrderedDict(), [], inner)

    trio = [opgen.OField(f.name, st.name, "trio", copy.deepcopy(args), [], [opgen.OField("__typename", target.name)]),
            opgen.OField(f.name, st.name, "trio", copy.deepcopy(args), [], [sub(g)]),
            opgen.OField(f.name, st.name, "trio", copy.deepcopy(args), [], [sub(h)])]
    if rng.random() < 0.3:
        trio[1], trio[2] = trio[2], trio[1]
    for x in trio:
        sels.insert(rng.randint(0, len(sels)), x) if rng.random() < 0.3 else sels.append(x)
    # keep "first compatible with both" true: the plain one must come first
    plain = trio[0]
    sels.remove(plain)
    sels.insert(min(sels.index(trio[1]), sels.index(trio[2])), plain)
    return True


@operator("OverlappingFieldsCanBeMergedChecker")
def conflict_between_fragment_of_one_duplicate_and_field_of_the_other(rng, doc, s):
    """`dup: f { ...Frag } dup: f { lab: b }` with `fragment Frag on T { lab: a }`: one occurrence reaches
    the conflicting sub-field only through a spread, the other selects it directly (either order)."""
    cands = []
    for sels, scope, owner in walk_selection_lists(doc, s):
        st = s.types.get(scope)
        if st is None or st.kind not in ("object", "interface"):
            continue
        for f in st.fields:
            target = s.types.get(S.unwrap(f.type))
            if target is not None and target.kind in ("object", "interface"):
                leafs = [g for g in target.fields if not [a for a in g.args if a.type[0] == "nonnull" and not a.has_default]]
                if len(leafs) >= 2:
                    cands.append((sels, st, f, target, leafs))
    if not cands:
        return None
    sels, st, f, target, leafs = rng.choice(cands)
    g, h = rng.sample(leafs, 2)
    args = _required_args(rng, s, f)

    def sub(x):
        inner = None
        if s.kind(S.unwrap(x.type)) in ("object", "interface", "union"):
            inner = [opgen.OField("__typename", S.unwrap(x.type))]
        return opgen.OField(x.name, target.name, "lab", collections.OrderedDict(), [], inner)

    name = "ViaSpread%d" % len(doc.fragments)
    doc.fragments[name] = opgen.OFragment(name, target.name, [sub(g)])
    pair = [opgen.OField(f.name, st.name, "dupe", copy.deepcopy(args), [], [opgen.OSpread(name)]),
            opgen.OField(f.name, st.name, "dupe", copy.deepcopy(args), [], [sub(h)])]
    if rng.random() < 0.5:
        pair.reverse()
    sels.extend(pair)
    return True


def _exclusive_leaf_pairs(s, scope, same_shape):
    """[(T1, f1, T2, f2)] for distinct possible object types of scope and argument-free leaf fields whose
    types are identical (same_shape) or have different named types."""
    out = []
    poss = [s.types[n] for n in s.possible_types(scope)] if s.types[scope].kind != "object" else []
    for i, t1 in enumerate(poss):
        for t2 in poss[i + 1:]:
            for f1 in t1.fields:
                if f1.args or not _is_leaf(s, f1.type):
                    continue
                for f2 in t2.fields:
                    if f2.args or not _is_leaf(s, f2.type):
                        continue
                    if f1.name == f2.name:
                        # homonyms: the same field name with another leaf type (weighted up)
                        if not same_shape and S.unwrap(f1.type) != S.unwrap(f2.type):
                            out.extend([(t1, f1, t2, f2)] * 5)
                        continue
                    if same_shape and f1.type == f2.type:
                        out.append((t1, f1, t2, f2))
                    if not same_shape and S.unwrap(f1.type) != S.unwrap(f2.type):
                        out.append((t1, f1, t2, f2))
    return out


@operator("OverlappingFieldsCanBeMergedChecker")
def different_shapes_on_exclusive_types(rng, doc, s):
    """`... on A { k: intField } ... on B { k: stringField }`: the parent types exclude each other,
    but the response shapes differ. One side may sit in a fragment without type condition."""
    cands = []
    for sels, scope, owner in walk_selection_lists(doc, s):
        if scope in s.types and s.types[scope].kind in ("interface", "union"):
            pairs = _exclusive_leaf_pairs(s, scope, same_shape=False)
            if pairs:
                cands.append((sels, pairs))
    if not cands:
        return None
    sels, pairs = rng.choice(cands)
    t1, f1, t2, f2 = rng.choice(pairs)
    alias = None if f1.name == f2.name and rng.random() < 0.7 else "shape"
    a = [opgen.OField(f1.name, t1.name, alias)]
    b = [opgen.OField(f2.name, t2.name, alias)]
    if f1.name == f2.name and alias is None and rng.random() < 0.6:
        pass        # two selection sets spelled identically, under parents that give them different types
    else:
        if rng.random() < 0.5:
            a = [opgen.OInline(None, a)]
        if rng.random() < 0.3:
            b = [opgen.OInline(None, b)]
    sels.append(opgen.OInline(t1.name, a))
    sels.append(opgen.OInline(t2.name, b))
    return True


@operator("OverlappingFieldsCanBeMergedChecker")
def typename_against_another_shape_on_exclusive_types(rng, doc, s):
    """`... on A { k: __typename } ... on B { k: someIntOrListField }`: `__typename` is a field of type String!
    like any other when response shapes are compared."""
    cands = []
    for sels, scope, owner in walk_selection_lists(doc, s):
        if scope in s.types and s.types[scope].kind in ("interface", "union"):
            poss = [s.types[n] for n in s.possible_types(scope)]
            for t1 in poss:
                for t2 in poss:
                    if t1 is t2:
                        continue
                    for f2 in t2.fields:
                        if f2.args or not _is_leaf(s, f2.type):
                            continue
                        if f2.type != S.nn(S.named("String")):
                            cands.append((sels, t1, t2, f2))
    if not cands:
        return None
    sels, t1, t2, f2 = rng.choice(cands)
    pair = [opgen.OInline(t1.name, [opgen.OField("__typename", t1.name, "shape")]),
            opgen.OInline(t2.name, [opgen.OField(f2.name, t2.name, "shape")])]
    if rng.random() < 0.5:
        pair.reverse()
    sels.extend(pair)
    return True


@operator("OverlappingFieldsCanBeMergedChecker")
def identically_spelled_sub_selections_with_different_shapes(rng, doc, s):
    """`... on A { box { val } } ... on B { box { val } }` where A.box and B.box have different types and `val` is
    an Int below one and a String below the other: the two sub-selections are the same text, not the same thing."""
    cands = []
    for sels, scope, owner in walk_selection_lists(doc, s):
        if scope in s.types and s.types[scope].kind in ("interface", "union"):
            poss = [s.types[n] for n in s.possible_types(scope)]
            for i, t1 in enumerate(poss):
                for t2 in poss[i + 1:]:
                    for f1 in t1.fields:
                        f2 = t2.field(f1.name)
                        if f2 is None or f1.args or f2.args or f1.type == f2.type:
                            continue
                        o1, o2 = s.types.get(S.unwrap(f1.type)), s.types.get(S.unwrap(f2.type))
                        if o1 is None or o2 is None or o1.kind != "object" or o2.kind != "object":
                            continue
                        for g1 in o1.fields:
                            g2 = o2.field(g1.name)
                            if g2 is not None and not g1.args and not g2.args and _is_leaf(s, g1.type) and \
                                    _is_leaf(s, g2.type) and S.unwrap(g1.type) != S.unwrap(g2.type):
                                cands.append((sels, t1, t2, f1, f2, o1, o2, g1))
    if not cands:
        return None
    sels, t1, t2, f1, f2, o1, o2, g = rng.choice(cands)
    pair = [opgen.OInline(t1.name, [opgen.OField(f1.name, t1.name, None, None, None, [opgen.OField(g.name, o1.name)])]),
            opgen.OInline(t2.name, [opgen.OField(f2.name, t2.name, None, None, None, [opgen.OField(g.name, o2.name)])])]
    if rng.random() < 0.5:
        pair.reverse()
    sels.extend(pair)
    return True


@operator("OverlappingFieldsCanBeMergedChecker")
def fragment_compared_under_exclusive_parents_first_then_under_overlapping_ones(rng, doc, s):
    """`... on Dog { owner { lab: g } } ... on Cat { owner { ...Y } } owner { ...Y }` with `fragment Y on T { lab: h }`:
    the fields `{ lab: g }` meet the fragment twice, first below parents that exclude each other (Dog / Cat: nothing to
    report), then below parents that do not (Dog / the interface): the second meeting is the conflict. The written
    order of the three selections is what a memo of compared (fields, fragment) pairs would get wrong."""
    cands = []
    scope_of = {}
    for sels, scope, owner in walk_selection_lists(doc, s):
      st = s.types.get(scope)
      if st is None or st.kind not in ("interface", "union", "object"):
          continue
      for iface in s.types.values():
        if iface.kind != "interface" or not (set(s.possible_types(iface.name)) & set(s.possible_types(scope))):
            continue
        objs = [s.types[n] for n in s.possible_types(iface.name)]
        if len(objs) < 2:
            continue
        for w in iface.fields:
            target = s.types.get(S.unwrap(w.type))
            if target is None or target.kind not in ("object", "interface") or getattr(w, "homonym", False):
                continue
            leafs = [g for g in target.fields if not [a for a in g.args if a.type[0] == "nonnull" and not a.has_default]]
            # same shape, other field - or the same field with other argument values
            pairs = [(g, h) for g in leafs for h in leafs if g is not h and g.type == h.type]
            pairs += [(g, g) for g in target.fields if g.args]
            if pairs and all(o.field(w.name) is not None and o.field(w.name).type == w.type for o in objs):
                cands.append((sels, iface, objs, w, target, pairs))
                scope_of[id(sels)] = scope
    if not cands:
        return None
    sels, iface, objs, w, target, pairs = rng.choice(cands)
    g, h = rng.choice(pairs)
    o1, o2 = rng.sample(objs, 2)
    args = _required_args(rng, s, w)
    name = "MetTwice%d" % len(doc.fragments)
    ga, ha = _required_args(rng, s, g), _required_args(rng, s, h)
    if g is h:
        a0 = rng.choice(g.args)
        for _ in range(20):
            v1, v2 = _sg(rng, s).input_value_for(a0.type, allow_null=False), _sg(rng, s).input_value_for(a0.type, allow_null=False)
            if opgen.value_text(v1) != opgen.value_text(v2):
                break
        else:
            return None
        ga[a0.name], ha[a0.name] = v1, v2

    def inner(x):
        return None if _is_leaf(s, x.type) else [opgen.OField("__typename", S.unwrap(x.type))]

    doc.fragments[name] = opgen.OFragment(name, target.name, [opgen.OField(h.name, target.name, "lab", ha, [], inner(h))])

    def via(parent, sub):
        return opgen.OField(w.name, parent, "met", copy.deepcopy(args), [], sub)

    direct = [opgen.OField(g.name, target.name, "lab", ga, [], inner(g))]
    three = [opgen.OInline(o1.name, [via(o1.name, direct)]),
             opgen.OInline(o2.name, [via(o2.name, [opgen.OSpread(name)])]),
             via(iface.name, [opgen.OSpread(name)])]
    if scope_of[id(sels)] != iface.name:
        three = [opgen.OInline(iface.name, three)]
    sels.extend(three)
    return True


@operator("OverlappingFieldsCanBeMergedChecker")
def conflict_between_object_and_interface_parents(rng, doc, s):
    """`... on Dog { k: nickname } ... on Pet { k: name }`: an object type and an interface it implements
    do not exclude each other, so equal return types do not make the two fields mergeable."""
    cands = []
    for sels, scope, owner in walk_selection_lists(doc, s):
        st = s.types.get(scope)
        if st is None or st.kind not in ("interface", "union", "object"):
            continue
        for iface in s.types.values():
            if iface.kind != "interface":
                continue
            for oname in s.possible_types(iface.name):
                if oname not in s.possible_types(scope) and oname != scope:
                    continue
                if scope != iface.name and iface.name not in [scope] and not (set(s.possible_types(iface.name)) & set(s.possible_types(scope))):
                    continue
                o = s.types[oname]
                for h in iface.fields:
                    for g in o.fields:
                        if g.name != h.name and g.type == h.type and not getattr(g, "homonym", False):
                            cands.append((sels, o, g, iface, h))
                    # the same field with other argument values
                    if h.args and o.field(h.name) is not None:
                        cands.append((sels, o, h, iface, h))
    if not cands:
        return None
    sels, o, g, iface, h = rng.choice(cands)
    if g is h:
        a0 = rng.choice(h.args)
        v1 = v2 = None
        for _ in range(20):
            v1, v2 = _sg(rng, s).input_value_for(a0.type, allow_null=False), _sg(rng, s).input_value_for(a0.type, allow_null=False)
            if opgen.value_text(v1) != opgen.value_text(v2):
                break
        else:
            return None
        subsel = None if _is_leaf(s, h.type) else [opgen.OField("__typename", S.unwrap(h.type))]
        fa = opgen.OField(h.name, o.name, "viaBoth", _required_args(rng, s, h), [], subsel)
        fb = opgen.OField(h.name, iface.name, "viaBoth", _required_args(rng, s, h), [], copy.deepcopy(subsel))
        fa.args[a0.name], fb.args[a0.name] = v1, v2
        sels.extend([opgen.OInline(o.name, [fa]), opgen.OInline(iface.name, [fb])])
        return True

    def mk(f, parent):
        sub = None
        if not _is_leaf(s, f.type):
            sub = [opgen.OField("__typename", S.unwrap(f.type))]
        return opgen.OField(f.name, parent, "viaBoth", _required_args(rng, s, f), [], sub)

    a = opgen.OInline(o.name, [mk(g, o.name)])
    b = opgen.OInline(iface.name, [mk(h, iface.name)])
    pair = [a, b]
    if rng.random() < 0.5:
        pair.reverse()
    if rng.random() < 0.3:
        name = "ViaIface%d" % len(doc.fragments)
        doc.fragments[name] = opgen.OFragment(name, iface.name, b.selection)
        pair = [opgen.OSpread(name) if x is b else x for x in pair]
    sels.extend(pair)
    return True


def _lists_under_wrapped_fields(doc, s):
    """Selection lists of fields whose declared type is a list or non-null wrapper."""
    out = []

    def rec(sels, scope):
        for x in sels:
            if x.kind == "field" and x.selection is not None:
                st = s.types.get(scope)
                f = st.field(x.name) if st is not None and st.kind in ("object", "interface") else None
                if f is not None:
                    if f.type[0] != "named":
                        out.append((x.selection, S.unwrap(f.type)))
                    rec(x.selection, S.unwrap(f.type))
            elif x.kind == "inline":
                rec(x.selection, x.type_cond or scope)
    roots = dict(s.roots())
    for op in doc.operations:
        rec(op.selection, roots[op.kind])
    for fr in doc.fragments.values():
        rec(fr.selection, fr.type_cond)
    return out


@operator("FieldsOnCorrectTypeChecker")
def unknown_field_in_untyped_fragment(rng, doc, s):
    """An undefined field inside `... { }` directly under a list / non-null typed field."""
    lists = _lists_under_wrapped_fields(doc, s)
    if not lists:
        return None
    sels, scope = rng.choice(lists)
    sels.insert(rng.randint(0, len(sels)), opgen.OInline(None, [opgen.OField(rng.choice(["noSuchField", "zz"]), scope)]))
    return True


@operator("ScalarLeafsChecker")
def leaf_selection_in_untyped_fragment(rng, doc, s):
    """A leaf with a sub-selection / a composite without one, inside `... { }` under a wrapped field."""
    cands = []
    for sels, scope in _lists_under_wrapped_fields(doc, s):
        st = s.types.get(scope)
        if st is None or st.kind not in ("object", "interface"):
            continue
        for f in st.fields:
            if not [a for a in f.args if a.type[0] == "nonnull" and not a.has_default]:
                cands.append((sels, st, f))
    if not cands:
        return None
    sels, st, f = rng.choice(cands)
    sub = [opgen.OField("__typename", S.unwrap(f.type))] if _is_leaf(s, f.type) else None
    sels.append(opgen.OInline(None, [opgen.OField(f.name, st.name, "leafcheck", collections.OrderedDict(), [], sub)]))
    return True


def _sg(rng, s):
    g = S.SchemaGen(rng)
    g.s = s
    return g


@operator("UniqueInputFieldNamesChecker")
def duplicate_input_field(rng, doc, s):
    cands = []
    for x, sels, scope, owner in all_fields(doc, s):
        for k, v in x.args.items():
            if isinstance(v, dict) and v:
                cands.append((x, k))
    if not cands:
        return None
    x, k = rng.choice(cands)
    x.dup_input_field = k
    return True


def apply_operator(rng, doc, schema, op_fn):
    d = copy.deepcopy(doc)
    ok = op_fn(rng, d, schema)
    if not ok:
        return None
    return d


# ---------------------------------------------------------------------------
# rendering of (possibly broken) documents
# ---------------------------------------------------------------------------


def args_text(x):
    items = ["%s: %s" % (k, opgen.value_text(v)) for k, v in x.args.items()]
    dup = getattr(x, "dup_input_field", None)
    if dup is not None:
        v = x.args[dup]
        inner = ["%s: %s" % (k, opgen.value_text(val)) for k, val in v.items()]
        first = list(v.items())[0]
        inner.append("%s: %s" % (first[0], opgen.value_text(first[1])))
        items = ["%s: %s" % (k, "{%s}" % ", ".join(inner) if k == dup else opgen.value_text(val)) for k, val in x.args.items()]
    for k, v in getattr(x, "dup_args", []):
        items.append("%s: %s" % (k, opgen.value_text(v)))
    return "(%s)" % ", ".join(items) if items else ""


def selection_text(sels, indent):
    pad = "  " * indent
    out = []
    for x in sels:
        if x.kind == "field":
            head = pad + (x.alias + ": " if x.alias else "") + x.name + args_text(x) + opgen.directives_text(x.directives)
            if x.selection is not None:
                head += " {\n" + selection_text(x.selection, indent + 1) + "\n" + pad + "}"
            out.append(head)
        elif x.kind == "inline":
            head = pad + "..." + (" on " + x.type_cond if x.type_cond else "") + opgen.directives_text(x.directives)
            out.append(head + " {\n" + selection_text(x.selection, indent + 1) + "\n" + pad + "}")
        else:
            out.append(pad + "..." + x.name + opgen.directives_text(x.directives))
    return "\n".join(out)


def render(doc, order=None):
    parts = []
    for op in doc.operations:
        head = op.kind
        if op.name:
            head += " " + op.name
        if op.variables:
            vs = []
            for name, t, default in op.variables:
                v = "$%s: %s" % (name, S.type_str(t))
                if default is not UNSET:
                    v += " = " + opgen.value_text(default)
                vs.append(v)
            head += "(%s)" % ", ".join(vs)
        head += opgen.directives_text(op.directives)
        if head == "query" and not getattr(op, "force_keyword", False):
            head = ""
        parts.append((head + " " if head else "") + "{\n" + selection_text(op.selection, 1) + "\n}")
    frs = list(doc.fragments.values()) + list(getattr(doc, "dup_fragments", []))
    for fr in frs:
        parts.append("fragment %s on %s%s {\n%s\n}" % (fr.name, fr.type_cond, opgen.directives_text(fr.directives),
                                                     selection_text(fr.selection, 1)))
    extra = getattr(doc, "extra_text", None)
    if extra:
        parts.append(extra)
    if order is not None:
        parts = [parts[i] for i in order if i < len(parts)] + parts[len(order):]
    return "\n\n".join(parts) + "\n"


# ---------------------------------------------------------------------------
# validity-preserving transforms
# ---------------------------------------------------------------------------


def transform(rng, doc):
    """Returns (doc copy, list of transform kinds, definition order)."""
    d = copy.deepcopy(doc)
    kinds = []

    def each_list(fn):
        def rec(sels):
            fn(sels)
            for x in sels:
                if x.kind == "inline" or (x.kind == "field" and x.selection is not None):
                    rec(x.selection)
        for op in d.operations:
            rec(op.selection)
        for fr in list(d.fragments.values()) + list(getattr(d, "dup_fragments", [])):
            rec(fr.selection)

    if rng.random() < 0.6:
        each_list(lambda sels: rng.shuffle(sels))
        kinds.append("permute-selections")
    if rng.random() < 0.6:
        def perm_args(sels):
            for x in sels:
                if x.kind == "field" and len(x.args) > 1:
                    items = list(x.args.items())
                    rng.shuffle(items)
                    x.args = collections.OrderedDict(items)
        each_list(perm_args)
        kinds.append("permute-arguments")
    if rng.random() < 0.6:
        amap = {}
        plain = set()

        def collect_plain(sels):
            for x in sels:
                if x.kind == "field" and not x.alias:
                    plain.add(x.name)
        each_list(collect_plain)

        def rename_alias(sels):
            for x in sels:
                # an alias equal to some un-aliased field's key interacts with that field: keep it
                if x.kind == "field" and x.alias and x.alias not in plain:
                    if x.alias not in amap:
                        amap[x.alias] = "ren%d_%s" % (len(amap), rng.choice(["x", "alias", "k"]))
                    x.alias = amap[x.alias]
        each_list(rename_alias)
        kinds.append("rename-aliases")
    if rng.random() < 0.6 and d.fragments:
        fmap = {}
        for name in list(d.fragments) + [f.name for f in getattr(d, "dup_fragments", [])]:
            if name not in fmap:
                fmap[name] = "Renamed%s%d" % (rng.choice(["Fragment", "F", "Zz"]), len(fmap))

        def rename_spreads(sels):
            for x in sels:
                if x.kind == "spread" and x.name in fmap:
                    x.name = fmap[x.name]
        each_list(rename_spreads)
        newf = collections.OrderedDict()
        for name, fr in d.fragments.items():
            fr.name = fmap[name]
            newf[fr.name] = fr
        d.fragments = newf
        for fr in getattr(d, "dup_fragments", []):
            fr.name = fmap[fr.name]
        kinds.append("rename-fragments")
    if rng.random() < 0.6:
        vmap = {}

        def rv(v):
            if isinstance(v, Var):
                if v.name not in vmap:
                    vmap[v.name] = "renamedVar%d" % len(vmap)
                return Var(vmap[v.name])
            if isinstance(v, list):
                return [rv(x) for x in v]
            if isinstance(v, dict):
                return collections.OrderedDict((k, rv(x)) for k, x in v.items())
            return v

        for op in d.operations:
            for n, t, dflt in op.variables:
                if n not in vmap:
                    vmap[n] = "renamedVar%d" % len(vmap)

        def rename_vars(sels):
            for x in sels:
                if x.kind == "field":
                    x.args = collections.OrderedDict((k, rv(v)) for k, v in x.args.items())
                    if hasattr(x, "dup_args"):
                        x.dup_args = [(k, rv(v)) for k, v in x.dup_args]
                x.directives = [(n, collections.OrderedDict((k, rv(v)) for k, v in a.items())) for n, a in x.directives]
        each_list(rename_vars)
        for op in d.operations:
            op.variables = [(vmap[n], t, dflt) for n, t, dflt in op.variables]
            op.directives = [(n, collections.OrderedDict((k, rv(v)) for k, v in a.items())) for n, a in op.directives]
        for fr in list(d.fragments.values()) + list(getattr(d, "dup_fragments", [])):
            fr.directives = [(n, collections.OrderedDict((k, rv(v)) for k, v in a.items())) for n, a in fr.directives]
        kinds.append("rename-variables")
    if rng.random() < 0.4:
        def wrap(sels):
            for i, x in enumerate(list(sels)):
                if x.kind in ("field", "spread") and rng.random() < 0.25 and not getattr(x, "no_wrap", False):
                    sels[i] = opgen.OInline(None, [x])
        each_list(wrap)
        kinds.append("wrap-in-untyped-inline-fragments")
    n_parts = len(d.operations) + len(d.fragments) + len(getattr(d, "dup_fragments", [])) + (1 if getattr(d, "extra_text", None) else 0)
    order = list(range(n_parts))
    if rng.random() < 0.7:
        rng.shuffle(order)
        kinds.append("permute-definitions")
    return d, kinds, order


def retrivia(rng, text):
    """Re-spell insignificant whitespace, commas and comments (token texts untouched)."""
    from ..ref import reflang

    toks = reflang.lex(text)
    pieces = [text[t.start:t.end] for t in toks if t.kind != "EOF"]
    return lexgen.render(rng, pieces, rng.choice(["min", "wild", "lines", "space"]))
