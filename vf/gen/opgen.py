# -*- coding: utf-8 -*-
"""
G-OP: type-directed executable documents that are valid by construction against
a schema IR. IR first, text second.

Response keys are a function of (field name, canonical arguments): a field without
arguments uses its own name (or the fixed alias ``al_<name>``), a field with arguments the
alias ``<name>_<hash of arguments>``; therefore equal keys always denote the same field with
the same arguments and FieldsInSetCanMerge holds by construction.
"""
import collections

from ..core import h64
from ..ref.refcoerce import Var, to_json_value
from . import schemair as S
from .schemair import UNSET, EnumLit


class OField(object):
    kind = "field"

    def __init__(self, name, parent, alias=None, args=None, directives=None, selection=None):
        self.name, self.parent, self.alias = name, parent, alias
        self.args = args or collections.OrderedDict()
        self.directives = directives or []
        self.selection = selection

    @property
    def key(self):
        return self.alias or self.name


class OInline(object):
    kind = "inline"

    def __init__(self, type_cond, selection, directives=None):
        self.type_cond, self.selection, self.directives = type_cond, selection, directives or []


class OSpread(object):
    kind = "spread"

    def __init__(self, name, directives=None):
        self.name, self.directives = name, directives or []


class OFragment(object):
    def __init__(self, name, type_cond, selection, directives=None):
        self.name, self.type_cond, self.selection, self.directives = name, type_cond, selection, directives or []


class OOperation(object):
    def __init__(self, kind, name, selection, variables=None, directives=None):
        self.kind, self.name, self.selection = kind, name, selection
        self.variables = variables or []   # [(name, type, default or UNSET)]
        self.directives = directives or []


class ODoc(object):
    def __init__(self):
        self.operations = []
        self.fragments = collections.OrderedDict()
        self.features = set()
        self.nested_vars = set()


def canon_args(args):
    def c(v):
        if isinstance(v, Var):
            return {"$": v.name}
        if isinstance(v, EnumLit):
            return {"enum": v.name}
        if isinstance(v, dict):
            return {"obj": [[k, c(x)] for k, x in v.items()]}
        if isinstance(v, list):
            return [c(x) for x in v]
        if isinstance(v, float):
            return {"f": repr(v)}
        return v
    return [[k, c(v)] for k, v in args.items()]


class OpGen(object):
    def __init__(self, rng, schema, max_depth=4, p_var=0.3, p_directive=0.2, p_fragment=0.3,
                 allow_custom_directives=True, p_twin=0.3):
        self.rng, self.s = rng, schema
        self.p_twin = p_twin
        self.max_depth = max_depth
        self.p_var, self.p_directive, self.p_fragment = p_var, p_directive, p_fragment
        self.allow_custom = allow_custom_directives
        self.doc = ODoc()
        self.sg = S.SchemaGen(rng)
        self.sg.s = schema
        self.frag_counter = 0
        self.var_counter = 0
        self.cur_vars = None          # variables of the operation under construction
        self.cur_frags = None         # completed fragments of the current operation

    def chance(self, p):
        return self.rng.random() < p

    # -- values / variables ----------------------------------------------
    def arg_value(self, t, allow_var=True, position_has_default=False):
        """Literal IR value for type t, possibly a variable (whole or nested)."""
        rng = self.rng
        p_var = self.p_var
        if position_has_default and t[0] == "nonnull" and p_var > 0:
            p_var = max(p_var, 0.7)
        if allow_var and self.cur_vars is not None and self.chance(p_var):
            return self.new_var(t, position_has_default=position_has_default)
        v = self.sg.input_value_for(t)
        if allow_var and self.cur_vars is not None and isinstance(v, dict) and v and self.chance(0.3):
            # nest a variable inside an object literal
            st = self.s.types[S.unwrap(t)] if S.nullable(t)[0] == "named" else None
            if st is not None and st.kind == "input":
                fname = rng.choice(list(v))
                f = [x for x in st.input_fields if x.name == fname][0]
                v[fname] = self.new_var(f.type, nested=True)
                self.doc.features.add("nested-variable")
        return v

    def new_var(self, t, nested=False, position_has_default=False):
        rng = self.rng
        self.var_counter += 1
        name = "v%d" % self.var_counter
        vt = t
        default = UNSET
        r = rng.random()
        if t[0] == "nonnull" and position_has_default and rng.random() < 0.8:
            name = "vn%d" % self.var_counter      # variable_values() makes these null more often
            # a nullable variable is allowed where the non-null position has a default; an explicit
            # null then fails the coercion of that argument at every execution of the field
            vt = S.nullable(t)
            self.doc.features.add("nullable-variable-in-defaulted-non-null-argument")
            if r < 0.3:
                default = self.sg.input_value_for(vt)
        elif r < 0.3:
            # stricter variable into a more permissive position, at any wrapper depth ([T!]! into [T]!)
            vt = S.strengthen(t, rng)
            if vt == t and t[0] != "nonnull":
                vt = S.nn(t)
        elif r < 0.55 and not nested:
            d = self.sg.input_value_for(t)
            if d is not None or t[0] != "nonnull":
                default = d
        self.cur_vars.append((name, vt, default))
        if nested:
            self.doc.nested_vars.add(name)
        self.doc.features.add("variable")
        return Var(name)

    def field_args(self, f):
        args = collections.OrderedDict()
        for a in f.args:
            required = a.type[0] == "nonnull" and not a.has_default
            if required or self.chance(0.6):
                args[a.name] = self.arg_value(a.type, position_has_default=a.has_default)
        if len(args) > 1 and self.chance(0.3):
            items = list(args.items())
            self.rng.shuffle(items)
            args = collections.OrderedDict(items)
        return args

    def directives_for(self, location, p=None):
        out = []
        p = self.p_directive if p is None else p
        rng = self.rng
        if location in ("FIELD", "FRAGMENT_SPREAD", "INLINE_FRAGMENT"):
            for dname in ("skip", "include"):
                if self.chance(p / 2):
                    r = rng.random()
                    if r < 0.6 or self.cur_vars is None:
                        val = rng.choice([True, False])
                    else:
                        val = self.new_var(S.nn(S.named("Boolean")))
                    out.append((dname, collections.OrderedDict([("if", val)])))
                    self.doc.features.add("skip-include")
        if self.allow_custom:
            for d in self.s.directives.values():
                if location in d.locations and self.chance(p / 2):
                    args = collections.OrderedDict()
                    for a in d.args:
                        required = a.type[0] == "nonnull" and not a.has_default
                        if required or self.chance(0.6):
                            args[a.name] = self.arg_value(a.type)
                    out.append((d.name, args))
                    self.doc.features.add("custom-directive")
        return out

    # -- selections -------------------------------------------------------
    def overlapping_types(self, scope):
        s = self.s
        mine = set(s.possible_types(scope))
        out = []
        for t in s.types.values():
            if t.kind in ("object", "interface", "union") and mine & set(s.possible_types(t.name)):
                out.append(t.name)
        return out

    def exclusive_leaf_pairs(self, scope):
        s = self.s
        out = []
        poss = [s.types[n] for n in s.possible_types(scope)]
        for i, t1 in enumerate(poss):
            for t2 in poss[i + 1:]:
                for f1 in t1.fields:
                    if f1.args or s.kind(S.unwrap(f1.type)) not in ("scalar", "enum") or getattr(f1, "homonym", False):
                        continue
                    for f2 in t2.fields:
                        if not f2.args and f2.name != f1.name and f2.type == f1.type and not getattr(f2, "homonym", False):
                            out.append((t1.name, f1, t2.name, f2))
        return out

    def make_field(self, f, scope, depth, force_leaf_only=False):
        args = self.field_args(f)
        alias = None
        if args:
            alias = "%s_%s" % (f.name, h64(canon_args(args))[:6])
        elif self.chance(0.15):
            alias = "al_" + f.name
            self.doc.features.add("alias")
        target = S.unwrap(f.type)
        sel = None
        if self.s.kind(target) in ("object", "interface", "union"):
            sel = self.selection_set(target, depth + 1)
        return OField(f.name, scope, alias, args, self.directives_for("FIELD"), sel)

    def selection_set(self, scope, depth, top=False, n=None):
        s, rng = self.s, self.rng
        st = s.types[scope]
        sels = []
        fields = [f for f in st.fields if not getattr(f, "homonym", False)] if st.kind in ("object", "interface") else []
        if depth >= self.max_depth:
            fields = [f for f in fields if s.kind(S.unwrap(f.type)) not in ("object", "interface", "union")]
        count = n if n is not None else rng.randint(1, 4 if depth < 2 else 2)
        for _ in range(count):
            r = rng.random()
            if fields and r < 0.62:
                sels.append(self.make_field(rng.choice(fields), scope, depth))
            elif r < 0.70 or depth >= self.max_depth or self.cur_frags is None:
                sels.append(OField("__typename", scope, "al___typename" if self.chance(0.2) else None))
            elif r < 0.70 + self.p_fragment / 2:
                cond = rng.choice(self.overlapping_types(scope))
                if self.chance(0.2):
                    inl = OInline(None, self.selection_set(scope, depth + 1), self.directives_for("INLINE_FRAGMENT"))
                else:
                    inl = OInline(cond, self.selection_set(cond, depth + 1), self.directives_for("INLINE_FRAGMENT"))
                sels.append(inl)
                self.doc.features.add("inline-fragment")
                if s.types[cond].kind != "object" or s.types[scope].kind != "object":
                    self.doc.features.add("abstract-fragment")
            else:
                usable = [f for f in self.cur_frags if f.type_cond in self.overlapping_types(scope)]
                if usable and self.chance(0.4):
                    frag = rng.choice(usable)
                else:
                    cond = rng.choice(self.overlapping_types(scope))
                    self.frag_counter += 1
                    name = rng.choice(["F", "Frag", "fragmentWithLongName", "on_"]) + str(self.frag_counter)
                    frag = OFragment(name, cond, self.selection_set(cond, depth + 1),
                                     self.directives_for("FRAGMENT_DEFINITION"))
                    self.doc.fragments[name] = frag
                    self.cur_frags.append(frag)
                sels.append(OSpread(frag.name, self.directives_for("FRAGMENT_SPREAD")))
                self.doc.features.add("fragment-spread")
        # one alias for different fields of object types that exclude each other (same leaf type)
        if self.cur_frags is not None and st.kind in ("interface", "union") and self.chance(0.5):
            pairs = self.exclusive_leaf_pairs(scope)
            if pairs:
                t1, f1, t2, f2 = rng.choice(pairs)
                self.shared_counter = getattr(self, "shared_counter", 0) + 1
                key = "sh%d" % self.shared_counter
                a = [OField(f1.name, t1, key)]
                b = [OField(f2.name, t2, key)]
                if self.chance(0.6):
                    a = [OInline(None, a)]
                if self.chance(0.3):
                    b = [OInline(None, b)]
                sels.append(OInline(t1, a))
                sels.append(OInline(t2, b))
                self.doc.features.add("shared-alias-on-exclusive-types")
        # encourage merged keys: repeat an object-typed field with another sub-selection
        objs = [x for x in sels if x.kind == "field" and x.selection is not None]
        if objs and self.chance(0.3):
            x = rng.choice(objs)
            f = s.types[x.parent].field(x.name)
            if f is not None:
                sels.append(OField(x.name, x.parent, x.alias, x.args,
                                   [], self.selection_set(S.unwrap(f.type), depth + 1)))
                self.doc.features.add("merged-key")
        # the same object-typed field once more under type conditions: which occurrences merge then
        # depends on the concrete type of each object
        if st.kind == "interface" and self.cur_frags is not None and depth < self.max_depth and self.chance(0.6):
            composite_fields = [f for f in fields if s.kind(S.unwrap(f.type)) in ("object", "interface", "union")]
            x = rng.choice(objs) if objs else None
            if x is None and composite_fields:
                x = self.make_field(rng.choice(composite_fields), scope, depth)
                sels.append(x)
            f = st.field(x.name) if x is not None else None
            poss = list(s.possible_types(scope))
            rng.shuffle(poss)
            for tname in poss[:4]:
                if f is not None and s.types[tname].field(x.name) is not None:
                    sels.append(OInline(tname, [OField(x.name, tname, x.alias, x.args, [],
                                                        self.selection_set(S.unwrap(f.type), depth + 1))]))
                    self.doc.features.add("merged-key-under-type-conditions")
        if not sels:
            sels.append(OField("__typename", scope))
        return sels

    # -- twins ------------------------------------------------------------
    def _twin_value(self, v):
        """Deterministic, type-preserving change of a literal (variables, enums and null stay)."""
        if isinstance(v, (Var, EnumLit)) or v is None or v is UNSET:
            return v
        if isinstance(v, bool):
            return not v
        if isinstance(v, int):
            return v + 1 if v < 1000 else v - 1
        if isinstance(v, float):
            return v + 1.0
        if isinstance(v, str):
            return v + "x"
        if isinstance(v, list):
            return [self._twin_value(x) for x in v]
        if isinstance(v, dict):
            return collections.OrderedDict((k, self._twin_value(x)) for k, x in v.items())
        return v

    def _twin_selection(self, sels, depth=0):
        out = []
        for x in sels:
            if x.kind == "field":
                args = collections.OrderedDict((k, self._twin_value(v)) for k, v in x.args.items())
                sub = self._twin_selection(x.selection, depth + 1) if x.selection is not None else None
                out.append(OField(x.name, x.parent, x.alias, args, list(x.directives), sub))
            elif x.kind == "inline":
                out.append(OInline(x.type_cond, self._twin_selection(x.selection, depth + 1), list(x.directives)))
            else:
                fr = self.doc.fragments[x.name]
                dirs = [d for d in x.directives if d[0] in ("skip", "include")]
                out.append(OInline(fr.type_cond, self._twin_selection(fr.selection, depth + 1), dirs))
        if len(out) > 1 and self.chance(0.3):
            del out[self.rng.randrange(len(out))]
        return out

    def add_twin(self, sel):
        """Repeat one object-typed field under a fresh alias with the *same response keys* below it but
        changed literal arguments / a pruned sub-selection (named spreads are expanded so that the copy
        merges with nothing). Anything that identifies a sub-selection by parent type and response keys
        alone confuses the two."""
        places = []

        def walk(sels):
            for i, x in enumerate(sels):
                if x.kind == "field" and x.selection is not None:
                    places.append((sels, i))
                    walk(x.selection)
                elif x.kind == "inline":
                    walk(x.selection)

        walk(sel)
        for fr in self.cur_frags or []:
            walk(fr.selection)
        if not places:
            return
        sels, i = self.rng.choice(places)
        x = sels[i]
        args = collections.OrderedDict((k, self._twin_value(v)) for k, v in x.args.items())
        twin = OField(x.name, x.parent, "tw_" + (x.alias or x.name), args, [], self._twin_selection(x.selection))
        sels.insert(i + 1, twin)
        self.doc.features.add("twin")

    def operation(self, kind=None, name=None):
        s, rng = self.s, self.rng
        kinds = [k for k, n in s.roots() if k != "subscription"]
        kind = kind or rng.choice(kinds)
        root = dict(s.roots())[kind]
        self.cur_vars = []
        self.var_counter = 0      # variable names are reused by the other operations of the document
        self.cur_frags = [] if kind != "subscription" else None
        if kind == "subscription":
            f = rng.choice([x for x in s.types[root].fields if not getattr(x, "homonym", False)])
            sel = [self.make_field(f, root, 0)]
            sel[0].directives = [d for d in sel[0].directives if d[0] not in ("skip", "include")]
        else:
            sel = self.selection_set(root, 0, top=True)
            if self.chance(self.p_twin):
                self.add_twin(sel)
        op = OOperation(kind, name, sel, self.cur_vars, self.directives_for(kind.upper(), 0.1))
        self.cur_vars = None
        self.cur_frags = None
        self.doc.operations.append(op)
        return op

    def document(self, n_ops=None, kinds=None):
        rng = self.rng
        n = n_ops or rng.choice([1, 1, 1, 2, 3])
        for i in range(n):
            name = None
            if n > 1 or self.chance(0.5):
                name = "Op%d" % i
            self.operation(kind=(kinds[i] if kinds else None), name=name)
        return self.doc


# ---------------------------------------------------------------------------
# rendering
# ---------------------------------------------------------------------------


def value_text(v):
    if isinstance(v, Var):
        return "$" + v.name
    if isinstance(v, list):
        return "[%s]" % ", ".join(value_text(x) for x in v)
    if isinstance(v, dict):
        return "{%s}" % ", ".join("%s: %s" % (k, value_text(x)) for k, x in v.items())
    return S.value_text(v)


def args_text(args):
    if not args:
        return ""
    return "(%s)" % ", ".join("%s: %s" % (k, value_text(v)) for k, v in args.items())


def directives_text(dirs):
    return "".join(" @%s%s" % (n, args_text(a)) for n, a in dirs)


def selection_text(sels, indent):
    pad = "  " * indent
    out = []
    for x in sels:
        if x.kind == "field":
            head = pad + (x.alias + ": " if x.alias else "") + x.name + args_text(x.args) + directives_text(x.directives)
            if x.selection is not None:
                head += " {\n" + selection_text(x.selection, indent + 1) + "\n" + pad + "}"
            out.append(head)
        elif x.kind == "inline":
            head = pad + "..." + (" on " + x.type_cond if x.type_cond else "") + directives_text(x.directives)
            out.append(head + " {\n" + selection_text(x.selection, indent + 1) + "\n" + pad + "}")
        else:
            out.append(pad + "..." + x.name + directives_text(x.directives))
    return "\n".join(out)


def operation_text(op):
    head = op.kind
    if op.name:
        head += " " + op.name
    if op.variables:
        vs = []
        for name, t, default in op.variables:
            v = "$%s: %s" % (name, S.type_str(t))
            if default is not UNSET:
                v += " = " + value_text(default)
            vs.append(v)
        head += "(%s)" % ", ".join(vs)
    head += directives_text(op.directives)
    if head == "query" and not op.variables:
        head = ""
    return (head + " " if head else "") + "{\n" + selection_text(op.selection, 1) + "\n}"


def fragment_text(fr):
    return "fragment %s on %s%s {\n%s\n}" % (fr.name, fr.type_cond, directives_text(fr.directives),
                                           selection_text(fr.selection, 1))


def document_text(doc, rng=None):
    parts = [("op", operation_text(op)) for op in doc.operations]
    parts += [("frag", fragment_text(fr)) for fr in doc.fragments.values()]
    if rng is not None:
        rng.shuffle(parts)
    return "\n\n".join(p[1] for p in parts) + "\n"


def variable_values(rng, sg, op, nested=(), mode="valid"):
    """JSON variable payload for an operation: conforming values; nullable / defaulted
    variables are sometimes omitted or explicitly null."""
    out = {}
    for name, t, default in op.variables:
        r = rng.random()
        optional = t[0] != "nonnull" or default is not UNSET
        if optional and r < 0.25 and name not in nested:
            continue                      # omitted
        if t[0] != "nonnull" and r < (0.6 if name.startswith("vn") else 0.35):
            out[name] = None              # explicit null
            continue
        out[name] = to_json_value(sg.input_value_for(t, allow_null=(t[0] != "nonnull")))
    return out
