# -*- coding: utf-8 -*-
"""
G-DOC: grammar-directed random derivations of the June-2018 grammar (plus the
two documented extensions) as *token lists*; rendering through G-LEX gives the
text. Start symbols: executable document, type-system document, Value, Type.

Everything produced here is valid by construction, so R-LANG must accept it
(three-way agreement: generator / model / library).
"""
from . import lexgen as L

EXEC_LOCS = ["QUERY", "MUTATION", "SUBSCRIPTION", "FIELD", "FRAGMENT_DEFINITION",
             "FRAGMENT_SPREAD", "INLINE_FRAGMENT", "VARIABLE_DEFINITION"]
TS_LOCS = ["SCHEMA", "SCALAR", "OBJECT", "FIELD_DEFINITION", "ARGUMENT_DEFINITION",
           "INTERFACE", "UNION", "ENUM", "ENUM_VALUE", "INPUT_OBJECT", "INPUT_FIELD_DEFINITION"]


class Gen:
    def __init__(self, rng, fragment_variables=False, hostile_strings=True, max_depth=4, const_violation=False,
                 reserved_violation=False):
        self.rng = rng
        self.fragvars = fragment_variables
        self.hostile = hostile_strings
        self.max_depth = max_depth
        self.out = []
        self.features = set()
        # when set, exactly one value in a const position (variable defaults, directives of variable
        # definitions, anything in a type-system document) becomes a variable: the text is invalid
        self.const_violation = const_violation
        # when set, exactly one name in a position where some words are reserved is such a word (an enum value
        # called true / false / null, with or without a description in front; a fragment called `on`)
        self.reserved_violation = reserved_violation

    def emit(self, *toks):
        self.out.extend(toks)

    def chance(self, p):
        return self.rng.random() < p

    def name(self, exclude=()):
        self.emit(L.name(self.rng, exclude=exclude))

    # -- values ---------------------------------------------------------
    def string(self):
        if self.chance(0.35):
            text, _ = L.block_string_text(self.rng)
            self.features.add("block_string")
            self.emit(text)
        else:
            val = L.string_value(self.rng, hostile=self.hostile)
            self.features.add("string")
            self.emit(L.quoted_string_text(self.rng, val))

    def value(self, const, depth=0):
        if const and self.const_violation and "const-violation" not in self.features and self.chance(0.25):
            self.emit("$")
            self.name()
            self.features.add("const-violation")
            return
        r = self.rng.random()
        if depth >= self.max_depth:
            r = r * 0.7
        if r < 0.12:
            self.emit(L.int_text(self.rng))
        elif r < 0.22:
            self.emit(L.float_text(self.rng))
        elif r < 0.37:
            self.string()
        elif r < 0.45:
            self.emit(self.rng.choice(["true", "false"]))
        elif r < 0.5:
            self.emit("null")
        elif r < 0.6:
            self.emit(L.name(self.rng, exclude=("true", "false", "null")))
        elif r < 0.7:
            if const:
                self.emit(L.int_text(self.rng))
            else:
                self.emit("$")
                self.name()
        elif r < 0.85:
            self.emit("[")
            for _ in range(self.rng.randint(0, 3)):
                self.value(const, depth + 1)
            self.emit("]")
        else:
            self.emit("{")
            for _ in range(self.rng.randint(0, 3)):
                self.name()
                self.emit(":")
                self.value(const, depth + 1)
            self.emit("}")

    def type_ref(self, depth=0):
        if depth < 3 and self.chance(0.3):
            self.emit("[")
            self.type_ref(depth + 1)
            self.emit("]")
        else:
            self.name()
        if self.chance(0.3):
            self.emit("!")

    def arguments(self, const):
        if self.chance(0.4):
            self.emit("(")
            for _ in range(self.rng.randint(1, 3)):
                self.name()
                self.emit(":")
                self.value(const)
            self.emit(")")

    def directives(self, const, p=0.25):
        while self.chance(p):
            self.emit("@")
            self.name()
            self.arguments(const)
            self.features.add("directive")

    # -- executable -----------------------------------------------------
    def variable_definitions(self):
        self.emit("(")
        for _ in range(self.rng.randint(1, 3)):
            self.emit("$")
            self.name()
            self.emit(":")
            self.type_ref()
            if self.chance(0.4):
                self.emit("=")
                self.value(True)
            self.directives(True, 0.2)
        self.emit(")")
        self.features.add("variables")

    def selection_set(self, depth=0):
        self.emit("{")
        for _ in range(self.rng.randint(1, 4 if depth < 2 else 2)):
            r = self.rng.random()
            if r < 0.65 or depth >= self.max_depth:
                if self.chance(0.3):
                    self.name()
                    self.emit(":")
                    self.features.add("alias")
                self.name()
                self.arguments(False)
                self.directives(False)
                if depth < self.max_depth and self.chance(0.35):
                    self.selection_set(depth + 1)
            elif r < 0.8:
                self.emit("...")
                self.name(exclude=("on",))
                self.directives(False)
                self.features.add("spread")
            else:
                self.emit("...")
                if self.chance(0.6):
                    self.emit("on")
                    self.name()
                self.directives(False)
                self.selection_set(depth + 1)
                self.features.add("inline_fragment")
        self.emit("}")

    def operation(self, allow_shorthand=True):
        if allow_shorthand and self.chance(0.25):
            self.selection_set()
            self.features.add("shorthand")
            return
        self.emit(self.rng.choice(["query", "mutation", "subscription"]))
        if self.chance(0.6):
            self.name()
        if self.chance(0.4):
            self.variable_definitions()
        self.directives(False)
        self.selection_set()

    def fragment_definition(self):
        self.emit("fragment")
        if self.reserved_violation and "reserved-violation" not in self.features and self.chance(0.5):
            self.emit("on")
            self.features.add("reserved-violation")
        else:
            self.name(exclude=("on",))
        if self.fragvars and self.chance(0.5):
            self.variable_definitions()
            self.features.add("fragment_variables")
        self.emit("on")
        self.name()
        self.directives(False)
        self.selection_set()

    def executable_definition(self, allow_shorthand=True):
        if self.chance(0.3):
            self.fragment_definition()
        else:
            self.operation(allow_shorthand)

    # -- type system ----------------------------------------------------
    def description(self, p=0.3):
        if self.chance(p):
            self.string()
            self.features.add("description")

    def input_value_definition(self):
        self.description(0.2)
        self.name()
        self.emit(":")
        self.type_ref()
        if self.chance(0.35):
            self.emit("=")
            self.value(True)
            self.features.add("default")
        self.directives(True, 0.15)

    def arguments_definition(self):
        if self.chance(0.3):
            self.emit("(")
            for _ in range(self.rng.randint(1, 3)):
                self.input_value_definition()
            self.emit(")")

    def fields_definition(self, p=0.8):
        """Returns True when the optional block was omitted."""
        if not self.chance(p):
            return True
        self.emit("{")
        for _ in range(self.rng.randint(1, 4)):
            self.description(0.2)
            self.name()
            self.arguments_definition()
            self.emit(":")
            self.type_ref()
            self.directives(True, 0.15)
        self.emit("}")
        return False

    def implements(self, p=0.4):
        if self.chance(p):
            self.emit("implements")
            if self.chance(0.3):
                self.emit("&")
            for i in range(self.rng.randint(1, 3)):
                if i:
                    self.emit("&")
                self.name()
            return True
        return False

    def union_members(self, p=0.8):
        if not self.chance(p):
            return False
        self.emit("=")
        if self.chance(0.3):
            self.emit("|")
        for i in range(self.rng.randint(1, 3)):
            if i:
                self.emit("|")
            self.name()
        return True

    def enum_values(self, p=0.8):
        if not self.chance(p):
            return True
        self.emit("{")
        for _ in range(self.rng.randint(1, 4)):
            if self.reserved_violation and "reserved-violation" not in self.features and self.chance(0.6):
                self.description(0.6)
                self.emit(self.rng.choice(["true", "false", "null"]))
                self.features.add("reserved-violation")
                self.directives(True, 0.15)
                continue
            self.description(0.2)
            self.emit(L.name(self.rng, exclude=("true", "false", "null")))
            self.directives(True, 0.15)
        self.emit("}")
        return False

    def input_fields(self, p=0.8):
        if not self.chance(p):
            return True
        self.emit("{")
        for _ in range(self.rng.randint(1, 4)):
            self.input_value_definition()
        self.emit("}")
        return False

    def operation_types(self):
        self.emit("{")
        for _ in range(self.rng.randint(1, 3)):
            self.emit(self.rng.choice(["query", "mutation", "subscription"]))
            self.emit(":")
            self.name()
        self.emit("}")

    def type_system_definition(self):
        """Returns True when the definition ends in an omitted optional `{` block
        (a following `{` would be absorbed by a predictive parser)."""
        kind = self.rng.choice(["schema", "scalar", "type", "type", "interface", "union", "enum",
                                "input", "directive"])
        self.features.add("def:" + kind)
        if kind == "schema":
            self.emit("schema")
            self.directives(True)
            self.operation_types()
            return False
        self.description()
        if kind == "scalar":
            self.emit("scalar")
            self.name()
            self.directives(True)
            return False
        if kind == "type":
            self.emit("type")
            self.name()
            self.implements()
            self.directives(True)
            return self.fields_definition()
        if kind == "interface":
            self.emit("interface")
            self.name()
            self.directives(True)
            return self.fields_definition()
        if kind == "union":
            self.emit("union")
            self.name()
            self.directives(True)
            self.union_members()
            return False
        if kind == "enum":
            self.emit("enum")
            self.name()
            self.directives(True)
            return self.enum_values()
        if kind == "input":
            self.emit("input")
            self.name()
            self.directives(True)
            return self.input_fields()
        self.emit("directive", "@")
        self.name()
        self.arguments_definition()
        self.emit("on")
        if self.chance(0.3):
            self.emit("|")
        for i in range(self.rng.randint(1, 3)):
            if i:
                self.emit("|")
            self.emit(self.rng.choice(EXEC_LOCS + TS_LOCS))
        return False

    def type_system_extension(self):
        kind = self.rng.choice(["schema", "scalar", "type", "interface", "union", "enum", "input"])
        self.features.add("ext:" + kind)
        self.emit("extend", kind if kind != "type" else "type")
        if kind == "schema":
            n0 = len(self.out)
            self.directives(True, 0.4)
            had_dirs = len(self.out) > n0
            if not had_dirs or self.chance(0.5):
                self.operation_types()
                return False
            return True
        self.name()
        if kind == "scalar":
            self.emit("@")
            self.name()
            self.arguments(True)
            self.directives(True)
            return False
        n0 = len(self.out)
        if kind == "type":
            self.implements()
        self.directives(True)
        something = len(self.out) > n0
        p = 0.6 if something else 1.0
        if kind == "type" or kind == "interface":
            return self.fields_definition(p)
        if kind == "union":
            self.union_members(p)
            return False
        if kind == "enum":
            return self.enum_values(p)
        return self.input_fields(p)

    # -- documents ------------------------------------------------------
    def executable_document(self):
        for _ in range(self.rng.randint(1, 4)):
            self.executable_definition()

    def type_system_document(self, mix_executable=0.15):
        open_block = False
        for _ in range(self.rng.randint(1, 6)):
            r = self.rng.random()
            if open_block and self.chance(0.3):
                # keyword-only query right after a body-less definition or extension: printers must
                # not fall back to the short form here
                self.emit("query")
                self.selection_set()
                self.features.add("bare-query-after-bodyless-definition")
                open_block = False
            elif r < mix_executable:
                self.executable_definition(allow_shorthand=not open_block)
                open_block = False
            elif r < mix_executable + 0.25:
                open_block = self.type_system_extension()
            else:
                open_block = self.type_system_definition()


def gen_tokens(rng, start, fragment_variables=False, hostile_strings=True, const_violation=False, reserved_violation=False):
    g = Gen(rng, fragment_variables, hostile_strings, const_violation=const_violation, reserved_violation=reserved_violation)
    if start == "executable":
        g.executable_document()
    elif start == "typesystem":
        g.type_system_document()
    elif start == "value":
        g.value(False)
    elif start == "type":
        g.type_ref()
    else:
        raise ValueError(start)
    return g.out, g.features


def gen_text(rng, start, **kw):
    toks, feats = gen_tokens(rng, start, **kw)
    return L.render(rng, toks), toks, feats
