# -*- coding: utf-8 -*-
"""
G-SCHEMA: a schema IR (plain data), a seeded generator of valid schemas, and
renderings to (a) a code-built py_gql Schema through the public constructors and
(b) SDL text (optionally split over ``extend`` blocks, definitions shuffled).

Type expressions are tuples: ("named", "Int") | ("list", inner) | ("nonnull", inner).

Design rules that make generated operations valid by construction:
* a field name has the same signature (type, arguments) wherever it occurs
  (global pool), so equal response keys always denote mergeable fields;
* input-object cycles only run through nullable positions.
"""
import collections
import random

UNSET = ("<unset>",)

BUILTIN_SCALARS = ("Int", "Float", "String", "Boolean", "ID")


def named(n):
    return ("named", n)


def lst(t):
    return ("list", t)


def nn(t):
    return ("nonnull", t)


def unwrap(t):
    while t[0] != "named":
        t = t[1]
    return t[1]


def nullable(t):
    return t[1] if t[0] == "nonnull" else t


def strengthen(t, rng, p=0.4):
    """A type that is a subtype of t for input purposes: non-null added at random depths."""
    base = t[1] if t[0] == "nonnull" else t
    if base[0] == "list":
        base = ("list", strengthen(base[1], rng, p))
    return ("nonnull", base) if t[0] == "nonnull" or rng.random() < p else base


def type_str(t):
    if t[0] == "named":
        return t[1]
    if t[0] == "list":
        return "[%s]" % type_str(t[1])
    return type_str(t[1]) + "!"


class EnumLit(object):
    """An enum *name* inside an input value (defaults, literals)."""
    __slots__ = ("name",)

    def __init__(self, name):
        self.name = name

    def __eq__(self, o):
        return isinstance(o, EnumLit) and o.name == self.name

    def __hash__(self):
        return hash(("EnumLit", self.name))

    def __repr__(self):
        return "EnumLit(%s)" % self.name


class SInput(object):
    def __init__(self, name, type_, default=UNSET, description=None, python_name=None):
        self.name, self.type, self.default = name, type_, default
        self.description, self.python_name = description, python_name

    @property
    def has_default(self):
        return self.default is not UNSET

    @property
    def pyname(self):
        return self.python_name or self.name


class SField(object):
    def __init__(self, name, type_, args=(), description=None, deprecation=None, python_name=None):
        self.name, self.type, self.args = name, type_, list(args)
        self.description, self.deprecation, self.python_name = description, deprecation, python_name


class SEnumValue(object):
    def __init__(self, name, value=UNSET, description=None, deprecation=None):
        self.name, self.description, self.deprecation = name, description, deprecation
        self.value = name if value is UNSET else value


class SType(object):
    def __init__(self, kind, name, description=None):
        self.kind, self.name, self.description = kind, name, description
        self.fields = []       # object / interface: [SField]
        self.interfaces = []   # object: [str]
        self.members = []      # union: [str]
        self.values = []       # enum: [SEnumValue]
        self.input_fields = []  # input: [SInput]
        self.strict = False    # scalar: accepts only its own tagged values

    def field(self, name):
        for f in self.fields:
            if f.name == name:
                return f
        return None


class SDirective(object):
    def __init__(self, name, locations, args=(), description=None):
        self.name, self.locations, self.args, self.description = name, list(locations), list(args), description


class SSchema(object):
    def __init__(self):
        self.types = collections.OrderedDict()
        self.directives = collections.OrderedDict()
        self.query = "Query"
        self.mutation = None
        self.subscription = None

    def add(self, t):
        self.types[t.name] = t
        return t

    def kind(self, name):
        if name in BUILTIN_SCALARS:
            return "scalar"
        return self.types[name].kind

    def possible_types(self, name):
        t = self.types[name]
        if t.kind == "object":
            return [name]
        if t.kind == "union":
            return list(t.members)
        if t.kind == "interface":
            return [o.name for o in self.types.values() if o.kind == "object" and name in o.interfaces]
        return []

    def is_input(self, name):
        return name in BUILTIN_SCALARS or self.types[name].kind in ("scalar", "enum", "input")

    def is_output(self, name):
        return name in BUILTIN_SCALARS or self.types[name].kind in ("scalar", "enum", "object", "interface", "union")

    def roots(self):
        return [(op, n) for op, n in (("query", self.query), ("mutation", self.mutation),
                                      ("subscription", self.subscription)) if n]


# ---------------------------------------------------------------------------
# generation
# ---------------------------------------------------------------------------

DESCRIPTIONS = [None, None, "A simple description.", "Line one\nLine two", "with `code` and *markup*",
                "unicode é ü 中", "ends with colon:", "tab\tinside"]
HOSTILE_DESCRIPTIONS = ['quote " inside', 'ends with quote"', "ends with backslash\\", "  leading spaces",
                        "\tleading tab", "   uniform\n   indentation", "x" * 130 + " long-word " + "y" * 10,
                        'triple """ quote', "", " ", "trailing space ", "emoji \U0001f600", "a\n\n\nb",
                        "first\n    indented second", "word " * 40,
                        "a\n  \nb", "line\u2028separator", "paragraph\u2029separator", "next\u0085line",
                        "x\n\u2028\ny"]


import enum as _enum


class PyMember(_enum.Enum):
    """Members whose own values collide with other internal values on purpose."""
    A = 0
    B = "internal_1"
    C = 2.5
    D = 3


PY_ENUM_MEMBERS = list(PyMember)


class CallableToken(object):
    """An internal enum value that happens to be callable (a strategy object, a class, a function are values like
    any other): handing it on is not calling it."""

    def __init__(self, label):
        self.label = label

    def __call__(self, *a, **kw):
        return "called:%s" % self.label

    def __repr__(self):
        return "CallableToken(%r)" % self.label

    def __eq__(self, other):
        return isinstance(other, CallableToken) and other.label == self.label

    def __hash__(self):
        return hash(("CallableToken", self.label))


CALLABLE_TOKENS = [CallableToken("t%d" % i) for i in range(4)]


class IdentityToken(object):
    """An internal enum value compared by identity (an ordinary class instance: an ORM column, a handler object, a
    sentinel): what a resolver receives has to be this very object, not a copy of it."""

    def __init__(self, label):
        self.label = label

    def __repr__(self):
        return "IdentityToken(%r)" % self.label


IDENTITY_TOKENS = [IdentityToken("i%d" % i) for i in range(4)]


def clone(x):
    """The harness's own deep copy of IR material: identity-compared internal values stay the objects they are."""
    import copy

    return copy.deepcopy(x, dict((id(t), t) for t in IDENTITY_TOKENS))
VANISH = "value the serialiser maps to null"
HOSTILE_ARGUMENT_NAMES = ["func", "self", "fn", "func", "self", "fn", "func", "self", "args", "kwargs", "cls", "key", "value", "node", "nodes", "default",
                          "type", "name", "resolver", "executor", "runtime", "then", "else_", "path", "field"]


class SchemaGen(object):
    def __init__(self, rng, hostile_descriptions=False, size=None, features=None):
        self.rng = rng
        self.hostile = hostile_descriptions
        self.size = size or rng.choice([1, 2, 2, 3, 3, 4])
        self.s = SSchema()
        self.field_pool = {}   # field name -> SField template
        self.counter = 0
        self.features = features or {}

    def chance(self, p):
        return self.rng.random() < p

    def desc(self, p=0.35):
        if not self.chance(p):
            return None
        if self.hostile and self.chance(0.5):
            pool = HOSTILE_DESCRIPTIONS
            if self.hostile == "no-rewrap":
                pool = [d for d in pool if all(len(l) <= 100 for l in d.split("\n"))]
            return self.rng.choice(pool)
        return self.rng.choice(DESCRIPTIONS)

    def fresh(self, prefix):
        self.counter += 1
        return "%s%d" % (prefix, self.counter)

    # -- input side -------------------------------------------------------
    def input_type_names(self):
        names = list(BUILTIN_SCALARS)
        names += [t.name for t in self.s.types.values() if t.kind in ("scalar", "enum", "input")]
        return names

    def input_type_expr(self, allow_nonnull=True, names=None, depth=0):
        if depth == 0 and allow_nonnull and self.rng.random() < 0.03:
            inner = named(self.rng.choice(names or self.input_type_names()))
            return nn(lst(nn(lst(nn(lst(nn(inner)))))))
        r = self.rng.random()
        if depth < 2 and r < 0.25:
            t = lst(self.input_type_expr(True, names, depth + 1))
        else:
            t = named(self.rng.choice(names or self.input_type_names()))
        if allow_nonnull and self.chance(0.3):
            t = nn(t)
        return t

    def input_value_for(self, t, depth=0, allow_null=True):
        """A valid (GraphQL-natural) value for type expr t; enum names as EnumLit."""
        rng = self.rng
        if t[0] == "nonnull":
            return self.input_value_for(t[1], depth, allow_null=False)
        if allow_null and rng.random() < 0.15:
            return None
        if t[0] == "list":
            if rng.random() < 0.15:  # single value coerced to list
                inner = t[1]
                if nullable(inner)[0] != "list":
                    return self.input_value_for(inner, depth + 1, allow_null=False)
            return [self.input_value_for(t[1], depth + 1) for _ in range(rng.randint(0, 3))]
        name = t[1]
        if name == "Int":
            return rng.choice([0, 1, -1, 42, 2147483647, -2147483648, rng.randint(-1000, 1000)])
        if name == "Float":
            return rng.choice([0.0, 1.5, -2.25, 1e10, 3, rng.random() * 100])
        if name == "String":
            return rng.choice(["", "abc", 'with "quotes"', "back\\slash", "uni é", "line\nbreak", "x y z",
                               "ends with a line feed\n", "\n", "tab\tand cr\r", "12\n"])
        if name == "Boolean":
            return rng.choice([True, False])
        if name == "ID":
            return rng.choice(["id1", "42", 7, "12\n", "007", " 7", "id\n"])
        st = self.s.types[name]
        if st.kind == "enum":
            return EnumLit(rng.choice(st.values).name)
        if st.kind == "scalar":
            if st.strict:
                return "%s:%d" % (st.name, rng.randint(0, 99))
            # strings that python's float() accepts are what a printer guessing "number-like" stumbles over
            return rng.choice(["s", "free form", "", "s", True, False, "s", "nan", "inf", "-Infinity", "1e400", "free form",
                               "42.42", "007", "1e5", " 12 ", "s"])
        if st.kind == "input":
            out = collections.OrderedDict()
            for f in st.input_fields:
                required = f.type[0] == "nonnull" and not f.has_default
                if required or (depth < 3 and rng.random() < 0.6):
                    if depth >= 3 and not required:
                        continue
                    v = self.input_value_for(f.type, depth + 1)
                    out[f.name] = v
            return out
        raise AssertionError(st.kind)

    def make_input_value(self, name, t, default_p=0.35):
        default = UNSET
        if self.chance(default_p):
            default = self.input_value_for(t, depth=1)
            if default is None and t[0] == "nonnull":
                default = UNSET
        pyname = None
        if self.chance(0.2):
            pyname = "py_" + name
        return SInput(name, t, default, self.desc(0.2), pyname)

    # -- types ------------------------------------------------------------
    def gen_enums_scalars_inputs(self):
        s, rng = self.s, self.rng
        for _ in range(rng.randint(1, 1 + self.size)):
            e = s.add(SType("enum", self.fresh("Enum"), self.desc()))
            coded = self.chance(0.5)
            n_values = rng.randint(1, 4)
            # internal values that are the *names* of the neighbouring members (a python value must
            # never be mistaken for a name)
            crossed = coded and n_values >= 2 and self.chance(0.2)
            for i in range(n_values):
                nm = "%s_V%d" % (e.name.upper(), i)
                val = UNSET
                if crossed:
                    val = "%s_V%d" % (e.name.upper(), (i + 1) % n_values)
                elif coded:
                    # python Enum members are internal values too (EnumType.from_python_enum)
                    val = rng.choice([i, (e.name, i), "internal_%d" % i, float(i) + 0.5, PY_ENUM_MEMBERS[i % len(PY_ENUM_MEMBERS)],
                                      CALLABLE_TOKENS[i % len(CALLABLE_TOKENS)], IDENTITY_TOKENS[i % len(IDENTITY_TOKENS)]])
                e.values.append(SEnumValue(nm, val, self.desc(0.2), self.deprecation()))
            e.coded = coded
        for _ in range(rng.randint(0, 2)):
            sc = s.add(SType("scalar", self.fresh("Scalar"), self.desc()))
            sc.strict = self.chance(0.6)
            # a serialiser may legitimately turn a value into null (e.g. an unrepresentable one)
            sc.vanishing = (not sc.strict) and self.chance(0.6)
        n_inputs = rng.randint(1, 1 + self.size)
        shells = [s.add(SType("input", self.fresh("Input"), self.desc())) for _ in range(n_inputs)]
        for idx, it in enumerate(shells):
            for j in range(rng.randint(1, 4)):
                fname = "%s_f%d" % (it.name.lower(), j)
                # cycles only through nullable positions: references to input objects defined at or
                # after this one (incl. itself) are nullable or inside lists
                r = rng.random()
                if r < 0.3:
                    target = rng.choice(shells)
                    later = shells.index(target) >= idx
                    t = named(target.name)
                    if rng.random() < 0.3:
                        t = lst(nn(t) if rng.random() < 0.5 else t)
                    if not later and rng.random() < 0.3:
                        t = nn(t)
                    default_p = 0.0 if later else 0.3
                else:
                    names = list(BUILTIN_SCALARS) + [x.name for x in s.types.values() if x.kind in ("scalar", "enum")]
                    t = self.input_type_expr(True, names)
                    default_p = 0.35
                iv = self.make_input_value(fname, t, 0.0)
                iv._default_p = default_p
                it.input_fields.append(iv)
        # defaults are drawn once every input type is complete (a default may nest any of them)
        for it in shells:
            for iv in it.input_fields:
                if self.chance(iv._default_p):
                    d = self.input_value_for(iv.type, depth=1)
                    if not (d is None and iv.type[0] == "nonnull"):
                        iv.default = d

    def drop_cyclic_defaults(self):
        """A default such as `input A { f: A = {} }` expands without end (the omitted field takes
        its default again); such schemas are outside the explored space: drop those defaults."""
        import sys

        from ..ref import refcoerce

        changed = True
        while changed:   # dropping a default can make a field required and invalidate other defaults
            changed = False
            for t in self.s.types.values():
                for f in t.input_fields:
                    if not f.has_default:
                        continue
                    try:
                        ok = refcoerce.coerce_literal(self.s, f.type, f.default)[0] == "ok"
                    except RecursionError:
                        ok = False
                    if not ok:
                        f.default = UNSET
                        changed = True

    def deprecation(self, p=0.15):
        if not self.chance(p):
            return None
        return self.rng.choice(["No longer supported", "use something else", 'with "quotes"', "", "see \U0001f600 \U0001d538",
                                "back\\slash", "two\nlines", "use something else", "ends with a line feed\n"])

    def gen_field(self, owner, output_names):
        """New pooled field (name unique globally => same signature everywhere)."""
        rng = self.rng
        name = self.fresh("f")
        r = rng.random()
        base = named(rng.choice(output_names))
        t = base
        if r < 0.3:
            t = lst(nn(base) if rng.random() < 0.4 else base)
            if rng.random() < 0.15:
                t = lst(t)
        if rng.random() < 0.3:
            t = nn(t)
        if rng.random() < 0.04:
            # seven wrappers: as deep as the standard introspection query's TypeRef fragment goes
            t = nn(lst(nn(lst(nn(lst(nn(base)))))))
        args = []
        if rng.random() < 0.4:
            taken = set()
            for j in range(rng.randint(1, 3)):
                aname = "%s_a%d" % (name, j)
                if rng.random() < 0.2:
                    # argument names are passed on as python keyword arguments: names that library
                    # internals use for their own parameters must not collide with anything
                    cand = rng.choice(HOSTILE_ARGUMENT_NAMES)
                    if cand not in taken:
                        aname = cand
                taken.add(aname)
                args.append(self.make_input_value(aname, self.input_type_expr()))
            # a non-null argument with a default sometimes gets a required twin of the same type (two locations
            # that expect one type but differ in having a default); drawn from a side stream so that the
            # main stream of the generator is what it was
            for a in list(args):
                if a.type[0] == "nonnull" and a.has_default and \
                        random.Random("twin:%s:%r" % (a.name, a.default)).random() < 0.4:
                    args.append(SInput(a.name + "_req", a.type))
        f = SField(name, t, args, self.desc(0.25), self.deprecation(),
                   ("py_" + name) if rng.random() < 0.15 else None)
        self.field_pool[name] = f
        return f

    def implementation_variant(self, f):
        """An implementing object may declare other defaults for the interface field's optional
        arguments and extra optional arguments (only when features['impl_variants'])."""
        import copy

        if not self.features.get("impl_variants") or not self.chance(0.4):
            return f
        g = copy.copy(f)
        g.args = []
        for a in f.args:
            b = copy.copy(a)
            if a.type[0] != "nonnull" and self.chance(0.5):
                d = self.input_value_for(a.type, depth=2)
                b.default = d
            elif a.has_default and self.chance(0.3):
                d = self.input_value_for(a.type, depth=2)
                if d is not None or a.type[0] != "nonnull":
                    b.default = d
            g.args.append(b)
        if self.chance(0.5):
            names = list(BUILTIN_SCALARS) + [x.name for x in self.s.types.values() if x.kind == "enum"]
            t = named(self.rng.choice(names))
            g.args.append(SInput("%s_extra" % f.name, t, self.input_value_for(t, depth=2)))
        return g

    def gen_outputs(self):
        s, rng = self.s, self.rng
        leafs = list(BUILTIN_SCALARS) + [t.name for t in s.types.values() if t.kind in ("scalar", "enum")]
        n_ifaces = rng.randint(0, 1 + self.size // 2)
        n_objs = rng.randint(2, 2 + self.size)
        n_unions = rng.randint(0, 1 + self.size // 2)
        ifaces = [s.add(SType("interface", self.fresh("Iface"), self.desc())) for _ in range(n_ifaces)]
        objs = [s.add(SType("object", self.fresh("Obj"), self.desc())) for _ in range(n_objs)]
        unions = [s.add(SType("union", self.fresh("Union"), self.desc())) for _ in range(n_unions)]
        for u in unions:
            u.members = [o.name for o in rng.sample(objs, rng.randint(1, min(3, len(objs))))]
        composite = [t.name for t in ifaces + objs + unions]
        out_names = leafs + leafs + composite  # bias to leafs so trees terminate
        for i in ifaces:
            for _ in range(rng.randint(1, 3)):
                i.fields.append(self.gen_field(i, out_names))
        for o in objs:
            for i in ifaces:
                if rng.random() < 0.45:
                    o.interfaces.append(i.name)
                    for f in i.fields:
                        if not o.field(f.name):
                            o.fields.append(self.implementation_variant(f))
            for _ in range(rng.randint(1, 4)):
                o.fields.append(self.gen_field(o, out_names))
            # share some pooled fields between objects (same signature)
            if self.field_pool and rng.random() < 0.5:
                f = self.field_pool[rng.choice(sorted(self.field_pool))]
                if not o.field(f.name):
                    o.fields.append(f)
        # homonyms: one field name with different leaf types on two object types (legal as long as no
        # shared interface declares it). Operation generators never select them on their own: only the
        # rule-break operators do (same response name, different shapes on types that exclude each other)
        if len(objs) >= 2 and rng.random() < 0.4:
            a, b = rng.sample(objs, 2)
            # preferably two possible types of one abstract type (side stream)
            together = []
            for u in unions:
                ms = [o for o in objs if o.name in u.members]
                together += [(x, y) for i_, x in enumerate(ms) for y in ms[i_ + 1:]]
            for i in ifaces:
                ms = [o for o in objs if i.name in o.interfaces]
                together += [(x, y) for i_, x in enumerate(ms) for y in ms[i_ + 1:]]
            side = random.Random("homonym:%s:%d" % (a.name, len(together)))
            if together and side.random() < 0.75:
                a, b = side.choice(together)
            name = self.fresh("homonym")
            ta, tb = rng.sample(["Int", "String", "Boolean", "Float"], 2)
            for o, tn in ((a, ta), (b, tb)):
                f = SField(name, named(tn))
                f.homonym = True
                o.fields.append(f)
        # nested homonyms: two possible types of one abstract type carry an object field of the same name whose
        # types differ, and those two types carry a leaf of the same name with different types; identically
        # spelled selections `box { val }` below the two then have different shapes (side stream)
        together = []
        for u in unions:
            ms = [o for o in objs if o.name in u.members]
            together += [(x, y) for i_, x in enumerate(ms) for y in ms[i_ + 1:]]
        for i in ifaces:
            ms = [o for o in objs if i.name in o.interfaces]
            together += [(x, y) for i_, x in enumerate(ms) for y in ms[i_ + 1:]]
        side = random.Random("nested-homonym:%d:%d" % (len(objs), len(together)))
        if together and side.random() < 0.3 and self.features.get("nested_homonyms", True):
            a, b = side.choice(together)
            box, val = self.fresh("homonymBox"), self.fresh("homonymVal")
            ta, tb = side.sample(["Int", "String", "Boolean", "Float"], 2)
            for o, tn in ((a, ta), (b, tb)):
                inner = s.add(SType("object", self.fresh("Boxed"), None))
                leaf = SField(val, named(tn))
                leaf.homonym = True
                inner.fields.append(leaf)
                inner.fields.append(SField(self.fresh("boxedOther"), named("Int")))
                f = SField(box, named(inner.name))
                f.homonym = True
                o.fields.append(f)
                objs.append(inner)
        # every interface needs at least one implementation to be useful; add one if none
        for i in ifaces:
            if not s.possible_types(i.name):
                o = rng.choice(objs)
                o.interfaces.append(i.name)
                for f in i.fields:
                    if not o.field(f.name):
                        o.fields.append(f)
        # roots
        q = s.add(SType("object", "Query" if rng.random() < 0.7 else "RootQ", self.desc()))
        s.query = q.name
        for _ in range(rng.randint(2, 5)):
            q.fields.append(self.gen_field(q, leafs + composite + composite))
        for f in rng.sample(sorted(self.field_pool), min(2, len(self.field_pool))):
            if not q.field(f):
                q.fields.append(self.field_pool[f])
        # an ordinary object type may be *called* Mutation or Subscription without being that root
        plain_named_like_root = None
        if rng.random() < 0.08 and objs:
            plain_named_like_root = rng.choice(["Mutation", "Subscription"])
            if self.features.get("mutation") and plain_named_like_root == "Mutation":
                plain_named_like_root = "Subscription"
            if self.features.get("subscription") and plain_named_like_root == "Subscription":
                plain_named_like_root = None
            o = rng.choice(objs)
            old = o.name
            if plain_named_like_root is not None:
                self.rename_type(old, plain_named_like_root)
                composite = [plain_named_like_root if n == old else n for n in composite]
        # one object type may serve several operations (schema { query: Root, mutation: Root })
        shared = self.features.get("shared_roots")
        if shared is None:
            shared = rng.random() < 0.1
        if (rng.random() < 0.6 or self.features.get("mutation")) and plain_named_like_root != "Mutation":
            if shared:
                s.mutation = q.name
            else:
                m = s.add(SType("object", "Mutation" if rng.random() < 0.7 else "RootM", self.desc()))
                s.mutation = m.name
                for _ in range(rng.randint(1, 4)):
                    m.fields.append(self.gen_field(m, leafs + composite))
        if rng.random() < 0.4 or self.features.get("subscription"):
            if shared and rng.random() < 0.5:
                s.subscription = q.name
            else:
                sub_name = "Subscription" if rng.random() < 0.7 and plain_named_like_root != "Subscription" else "RootS"
                sub = s.add(SType("object", sub_name, self.desc()))
                s.subscription = sub.name
                for _ in range(rng.randint(1, 3)):
                    sub.fields.append(self.gen_field(sub, leafs + composite))
        # a naming migration: one input field's python name is another input field's GraphQL name (side stream)
        side = random.Random("naming-migration:%s" % ",".join(sorted(s.types)))
        if side.random() < 0.25 and self.features.get("naming_migration", True):
            it = s.add(SType("input", self.fresh("NamingMigration"), None))
            it.input_fields = [SInput("createdAt", named("String"), UNSET, None, "created_at"),
                               SInput("created_at", named("String"), UNSET, None, "legacy_created_at"),
                               SInput("other", named("Int"), 1)]
            f = SField(self.fresh("namingMigration"), named("Int"),
                       [SInput("stamp", named(it.name), collections.OrderedDict([("createdAt", "2020-01-01")]))])
            self.field_pool[f.name] = f
            q.fields.append(f)
        # a root type is an ordinary object type: a third of the schemas refer back to the query root from an
        # object type (Relay's `type Payload { query: Query }`); side stream, the main stream stays what it was
        side = random.Random("backref:%s:%d" % (",".join(sorted(s.types)), len(self.field_pool)))
        if objs and side.random() < 0.35 and self.features.get("back_reference_to_root", True):
            o = side.choice(objs)
            f = SField(self.fresh("backToRoot"), named(q.name))
            self.field_pool[f.name] = f
            o.fields.append(f)

    def rename_type(self, old, new):
        """Rename a type everywhere it is referenced (types dict order kept)."""
        s = self.s

        def rt(t):
            if t[0] == "named":
                return named(new) if t[1] == old else t
            return (t[0], rt(t[1]))

        items = list(s.types.items())
        s.types.clear()
        for k, t in items:
            if k == old:
                t.name = new
                k = new
            s.types[k] = t
        seen = set()
        for t in s.types.values():
            t.interfaces = [new if i == old else i for i in t.interfaces]
            t.members = [new if m == old else m for m in t.members]
            for f in t.fields:
                if id(f) in seen:
                    continue
                seen.add(id(f))
                f.type = rt(f.type)
                for a in f.args:
                    a.type = rt(a.type)
            for f in t.input_fields:
                f.type = rt(f.type)
        for f in self.field_pool.values():
            if id(f) not in seen:
                f.type = rt(f.type)

    def gen_directives(self):
        rng = self.rng
        for _ in range(rng.randint(0, 2)):
            locs = rng.sample(["FIELD", "FRAGMENT_SPREAD", "INLINE_FRAGMENT", "QUERY", "MUTATION",
                               "FRAGMENT_DEFINITION", "FIELD_DEFINITION", "OBJECT", "ENUM_VALUE",
                               "SUBSCRIPTION", "SCHEMA", "SCALAR", "ARGUMENT_DEFINITION",
                               "INTERFACE", "UNION", "ENUM", "INPUT_OBJECT", "INPUT_FIELD_DEFINITION"], rng.randint(1, 3))
            if "FIELD" not in locs and rng.random() < 0.7:
                locs.append("FIELD")
            if self.features.get("variable_definition_location") and rng.random() < 0.1:
                locs.append("VARIABLE_DEFINITION")     # accepted by the parser and by Directive()
            name = self.fresh("dir")
            if rng.random() < 0.15:
                # types and directives live in separate namespaces
                name = rng.choice(sorted(self.s.types))
                if name in self.s.directives:
                    continue
            args = [self.make_input_value("%s_a%d" % (name, j), self.input_type_expr())
                    for j in range(rng.randint(0, 2))]
            self.s.directives[name] = SDirective(name, locs, args, self.desc(0.3))
        # types that nothing but a directive argument refers to, one of them only through the other (side stream)
        side = random.Random("directive-only:%s" % ",".join(sorted(self.s.types)))
        if side.random() < 0.3 and self.features.get("directive_only_types", True):
            e = self.s.add(SType("enum", self.fresh("DirectiveOnlyEnum"), None))
            e.values = [SEnumValue("ONLY_A"), SEnumValue("ONLY_B")]
            e.coded = False
            sc = self.s.add(SType("scalar", self.fresh("DirectiveOnlyScalar"), None))
            sc.strict = False
            it = self.s.add(SType("input", self.fresh("DirectiveOnlyInput"), None))
            it.input_fields = [SInput("pick", named(e.name), EnumLit("ONLY_B")), SInput("tag", lst(named(sc.name)))]
            name = self.fresh("dirOnly")
            self.s.directives[name] = SDirective(name, ["FIELD"], [SInput("%s_cfg" % name, named(it.name))])
            e.discover_only = sc.discover_only = it.discover_only = True

    def generate(self):
        self.gen_enums_scalars_inputs()
        self.drop_cyclic_defaults()
        self.gen_outputs()
        self.gen_directives()
        return self.s


def generate(rng, **kw):
    return SchemaGen(rng, **kw).generate()


# ---------------------------------------------------------------------------
# rendering: code-built py_gql schema
# ---------------------------------------------------------------------------


def strict_scalar_fns(name):
    prefix = name + ":"

    def parse(v):
        if isinstance(v, str) and v.startswith(prefix):
            return ("scalar", name, v[len(prefix):])
        raise ValueError("%s cannot represent %r" % (name, v))

    def serialize(v):
        if isinstance(v, tuple) and len(v) == 3 and v[0] == "scalar" and v[1] == name:
            return prefix + v[2]
        raise ValueError("%s cannot serialize %r" % (name, v))

    def parse_literal(node, variables=None):
        from py_gql.lang import ast as A

        if not isinstance(node, A.StringValue):
            raise TypeError("%s expects a string literal" % name)
        return parse(node.value)

    return serialize, parse, parse_literal


def default_to_python(s, t, v):
    """Declared default (IR value with EnumLit) -> the python value py_gql must hold
    (enum internal values, input objects keyed by python names with their own defaults)."""
    from ..ref import refcoerce

    ok, val = refcoerce.coerce_input_literal_value(s, t, v)
    assert ok, (t, v, val)
    return val


_SUBCLASSES = {}


def build_code_schema(s, resolver_for=None, type_resolver_for=None, default_resolver_for=None,
                      subscription_resolver_for=None, order=None):
    """Render the IR through the public constructors. `resolver_for(type, field)` etc. may
    return None. Returns (Schema, {name: py_gql type})."""
    import py_gql.schema as S

    built = {}
    scalars = {"Int": S.Int, "Float": S.Float, "String": S.String, "Boolean": S.Boolean, "ID": S.ID}

    def ref(t):
        if t[0] == "nonnull":
            return S.NonNullType(ref(t[1]))
        if t[0] == "list":
            return S.ListType(ref(t[1]))
        n = t[1]
        if n in scalars:
            return scalars[n]
        return built[n]

    def lazy_ref(t):
        return lambda: ref(t)

    def mk_args(args):
        out = []
        for a in args:
            kw = {}
            if a.has_default:
                kw["default_value"] = default_to_python(s, a.type, a.default)
            out.append(S.Argument(a.name, lazy_ref(a.type), description=a.description,
                                  python_name=a.python_name, **kw))
        return out

    def mk_fields(st):
        def thunk():
            out = []
            for f in st.fields:
                out.append(S.Field(
                    f.name, lazy_ref(f.type), args=mk_args(f.args), description=f.description,
                    deprecation_reason=f.deprecation,
                    resolver=resolver_for(st.name, f.name) if resolver_for and st.kind == "object" else None,
                    subscription_resolver=(subscription_resolver_for(st.name, f.name)
                                           if subscription_resolver_for and st.kind == "object" else None),
                    python_name=f.python_name))
            return out
        return thunk

    def mk_input_fields(st):
        def thunk():
            out = []
            for f in st.input_fields:
                kw = {}
                if f.has_default:
                    kw["default_value"] = default_to_python(s, f.type, f.default)
                out.append(S.InputField(f.name, lazy_ref(f.type), description=f.description,
                                        python_name=f.python_name, **kw))
            return out
        return thunk

    # applications subclass the library's type classes (the library does so itself: RegexType): a
    # third of the types are instances of trivial subclasses
    subclasses = _SUBCLASSES

    def cls(base, name):
        from ..core import h64

        if int(h64("subclass:" + name)[:4], 16) % 3:
            return base
        if base not in subclasses:
            subclasses[base] = type("Vf" + base.__name__, (base,), {})
        return subclasses[base]

    for st in s.types.values():
        if st.kind == "enum":
            built[st.name] = cls(S.EnumType, st.name)(
                st.name, [S.EnumValue(v.name, v.value, deprecation_reason=v.deprecation, description=v.description)
                          for v in st.values], description=st.description)
        elif st.kind == "scalar":
            if st.strict:
                ser, par, lit = strict_scalar_fns(st.name)
                built[st.name] = cls(S.ScalarType, st.name)(st.name, ser, par, lit, description=st.description)
            else:
                ser = (lambda v: None if v == VANISH else v) if getattr(st, "vanishing", False) else (lambda v: v)
                built[st.name] = cls(S.ScalarType, st.name)(st.name, ser, lambda v: v,
                                              lambda node, variables=None: node.value, description=st.description)
        elif st.kind == "input":
            built[st.name] = cls(S.InputObjectType, st.name)(st.name, mk_input_fields(st), description=st.description)
        elif st.kind == "interface":
            built[st.name] = cls(S.InterfaceType, st.name)(
                st.name, mk_fields(st), description=st.description,
                resolve_type=type_resolver_for(st.name) if type_resolver_for else None)
        elif st.kind == "union":
            built[st.name] = cls(S.UnionType, st.name)(
                st.name, (lambda st=st: [built[m] for m in st.members]), description=st.description,
                resolve_type=type_resolver_for(st.name) if type_resolver_for else None)
        elif st.kind == "object":
            built[st.name] = cls(S.ObjectType, st.name)(
                st.name, mk_fields(st), interfaces=(lambda st=st: [built[i] for i in st.interfaces]),
                description=st.description,
                default_resolver=default_resolver_for(st.name) if default_resolver_for else None)
    directives = []
    for d in s.directives.values():
        directives.append(S.Directive(d.name, d.locations, args=mk_args(d.args), description=d.description))
    names = list(order) if order is not None else list(built)
    schema = S.Schema(
        query_type=built[s.query],
        mutation_type=built[s.mutation] if s.mutation else None,
        subscription_type=built[s.subscription] if s.subscription else None,
        directives=directives,
        # types marked discover_only are left for the schema to find (through the directive argument that uses them)
        types=[built[n] for n in names if not getattr(s.types[n], "discover_only", False)],
    )
    return schema, built


# ---------------------------------------------------------------------------
# rendering: SDL text
# ---------------------------------------------------------------------------


def value_text(v):
    """GraphQL literal text for an IR input value."""
    import json

    if v is None:
        return "null"
    if isinstance(v, EnumLit):
        return v.name
    if v is True:
        return "true"
    if v is False:
        return "false"
    if isinstance(v, int):
        return str(v)
    if isinstance(v, float):
        if v != v or v in (float("inf"), float("-inf")):
            # no literal denotes these; a literal beyond the double range is read as infinity
            return "-1e999" if v < 0 else "1e999"
        r = repr(v)
        return r
    if isinstance(v, str):
        return json.dumps(v, ensure_ascii=False)
    if isinstance(v, (list, tuple)):
        return "[%s]" % ", ".join(value_text(x) for x in v)
    if isinstance(v, dict):
        return "{%s}" % ", ".join("%s: %s" % (k, value_text(x)) for k, x in v.items())
    raise TypeError(repr(v))


def desc_text(d, indent=""):
    import json

    if d is None:
        return ""
    ok_block = (d != "" and "\n" not in d.strip("\n") or True)
    if all(ord(c) >= 0x20 or c in "\n\t" for c in d) and d.strip(" \t\n") == d and d != "" \
            and not d.endswith('"') and not d.endswith("\\") and '"""' not in d \
            and all((not ln) or (not ln[0] in " \t") for ln in d.split("\n")):
        body = "\n".join(indent + ln if ln else "" for ln in d.split("\n"))
        return '%s"""\n%s\n%s"""\n' % (indent, body, indent)
    return "%s%s\n" % (indent, json.dumps(d, ensure_ascii=False))


def input_value_sdl(a):
    s = "%s: %s" % (a.name, type_str(a.type))
    if a.has_default:
        s += " = " + value_text(a.default)
    return s + getattr(a, "applied", "")


TS_LOCATIONS = ["SCALAR", "OBJECT", "FIELD_DEFINITION", "ARGUMENT_DEFINITION", "INTERFACE", "UNION", "ENUM",
                "ENUM_VALUE", "INPUT_OBJECT", "INPUT_FIELD_DEFINITION"]


def apply_schema_directives(s, rng, p=0.3):
    """Defines two type-system directives and applies them to random types and members (SDL rendering
    only: the attribute ``applied`` holds the text). Returns the directive names."""
    s.directives["tagA"] = SDirective("tagA", TS_LOCATIONS, [SInput("n", named("Int"))])
    s.directives["tagB"] = SDirective("tagB", TS_LOCATIONS, [])

    def some():
        out = ""
        if rng.random() < p:
            out += " @tagA(n: %d)" % rng.randint(0, 9) if rng.random() < 0.7 else " @tagA"
        if rng.random() < p:
            out += " @tagB"
        return out

    for t in s.types.values():
        t.applied = some()
        for f in t.fields:
            if getattr(f, "applied", None) is None:        # pooled fields: decide once
                f.applied = some()
                for a in f.args:
                    a.applied = some()
        for f in t.input_fields:
            f.applied = some()
        for v in t.values:
            v.applied = some()
    return ["tagA", "tagB"]


def deprecation_sdl(reason):
    import json

    if reason is None:
        return ""
    if reason == "No longer supported":
        return " @deprecated"
    return " @deprecated(reason: %s)" % json.dumps(reason, ensure_ascii=False)


def field_sdl(f, indent="  "):
    out = desc_text(f.description, indent)
    args = ""
    if f.args:
        if any(a.description is not None for a in f.args):
            parts = []
            for a in f.args:
                parts.append(desc_text(a.description, indent * 2) + indent * 2 + input_value_sdl(a))
            args = "(\n%s\n%s)" % ("\n".join(parts), indent)
        else:
            args = "(%s)" % ", ".join(input_value_sdl(a) for a in f.args)
    return "%s%s%s%s: %s%s%s" % (out, indent, f.name, args, type_str(f.type), deprecation_sdl(f.deprecation),
                                 getattr(f, "applied", None) or "")


def type_members_sdl(st):
    """List of member lines (each a complete member) for splitting across extensions."""
    if st.kind in ("object", "interface"):
        return [field_sdl(f) for f in st.fields]
    if st.kind == "input":
        return [desc_text(f.description, "  ") + "  " + input_value_sdl(f) for f in st.input_fields]
    if st.kind == "enum":
        return [desc_text(v.description, "  ") + "  " + v.name + deprecation_sdl(v.deprecation) + getattr(v, "applied", "")
                for v in st.values]
    return []


KW = {"object": "type", "interface": "interface", "union": "union", "enum": "enum", "input": "input",
      "scalar": "scalar"}


def type_sdl(st, members=None, interfaces=None, union_members=None, extend=False):
    head = ("extend " if extend else "") + KW[st.kind] + " " + st.name
    out = "" if extend else desc_text(st.description)
    applied = "" if extend else getattr(st, "applied", "")
    if st.kind == "scalar":
        return out + head + applied
    if st.kind == "union":
        um = st.members if union_members is None else union_members
        return out + head + applied + (" = " + " | ".join(um) if um else "")
    ifs = st.interfaces if interfaces is None else interfaces
    if st.kind == "object" and ifs:
        head += " implements " + " & ".join(ifs)
    head += applied
    mem = type_members_sdl(st) if members is None else members
    if mem:
        return out + head + " {\n" + "\n".join(mem) + "\n}"
    return out + head


def directive_sdl(d):
    args = ""
    if d.args:
        if any(a.description is not None for a in d.args):
            args = "(\n%s\n)" % "\n".join(desc_text(a.description, "  ") + "  " + input_value_sdl(a) for a in d.args)
        else:
            args = "(%s)" % ", ".join(input_value_sdl(a) for a in d.args)
    return desc_text(d.description) + "directive @%s%s on %s" % (d.name, args, " | ".join(d.locations))


def schema_def_sdl(s, ops=None, extend=False):
    ops = s.roots() if ops is None else ops
    return ("extend " if extend else "") + "schema {\n" + "\n".join("  %s: %s" % (op, n) for op, n in ops) + "\n}"


def needs_schema_def(s):
    if (s.query != "Query" or (s.mutation and s.mutation != "Mutation")
            or (s.subscription and s.subscription != "Subscription")):
        return True
    # a type that merely carries a default root name would be taken for that root
    return ("Mutation" in s.types and s.mutation != "Mutation") or \
        ("Subscription" in s.types and s.subscription != "Subscription")


def to_sdl(s, rng=None, split_extensions=False, shuffle=False, force_schema_def=False, split_kinds=None):
    """Returns (text, info). With split_extensions, members / interfaces / union members / root
    operations are randomly distributed over the base definition and `extend` blocks
    (base definitions first in document order unless shuffled: extensions may precede)."""
    blocks = []
    n_ext = 0
    split_types = []
    for st in s.types.values():
        if split_extensions and rng is not None and st.kind != "scalar" and rng.random() < 0.6 \
                and (split_kinds is None or st.kind in split_kinds):
            split_types.append(st.name)
            mem = type_members_sdl(st)
            if st.kind == "union":
                um = list(st.members)
                k = rng.randint(1, len(um)) if um else 0
                blocks.append(("def", st.name, type_sdl(st, union_members=um[:k])))
                if um[k:]:
                    blocks.append(("ext", st.name, type_sdl(st, union_members=um[k:], extend=True)))
                    n_ext += 1
                continue
            k = rng.randint(1, len(mem)) if mem else 0
            ifs = list(st.interfaces)
            ki = rng.randint(0, len(ifs)) if ifs else 0
            blocks.append(("def", st.name, type_sdl(st, members=mem[:k], interfaces=ifs[:ki])))
            rest_m, rest_i = mem[k:], ifs[ki:]
            # up to two extension blocks, in member order
            if rest_m or rest_i:
                cut = rng.randint(0, len(rest_m))
                parts = [(rest_m[:cut], rest_i)] if cut == len(rest_m) or rng.random() < 0.5 else \
                    [(rest_m[:cut], rest_i), (rest_m[cut:], [])]
                if len(parts) == 1:
                    parts = [(rest_m, rest_i)]
                for pm, pi in parts:
                    if pm or pi:
                        blocks.append(("ext", st.name, type_sdl(st, members=pm, interfaces=pi, extend=True)))
                        n_ext += 1
        else:
            blocks.append(("def", st.name, type_sdl(st)))
    for d in s.directives.values():
        blocks.append(("def", "@" + d.name, directive_sdl(d)))
    if force_schema_def or needs_schema_def(s) or (rng is not None and rng.random() < 0.3):
        roots = s.roots()
        if split_extensions and rng is not None and len(roots) > 1 and rng.random() < 0.5:
            blocks.append(("def", "schema", schema_def_sdl(s, roots[:1])))
            blocks.append(("ext", "schema", schema_def_sdl(s, roots[1:], extend=True)))
            n_ext += 1
        else:
            blocks.append(("def", "schema", schema_def_sdl(s)))
    if shuffle and rng is not None:
        # extension blocks of one target keep their relative order (member order is observable)
        order = list(range(len(blocks)))
        rng.shuffle(order)
        shuffled = [blocks[i] for i in order]
        # restore relative order among blocks of the same target
        by_target = collections.defaultdict(list)
        for b in blocks:
            by_target[b[1]].append(b)
        out = []
        cursor = collections.defaultdict(int)
        for b in shuffled:
            tgt = b[1]
            out.append(by_target[tgt][cursor[tgt]])
            cursor[tgt] += 1
        blocks = out
    text = "\n\n".join(b[2] for b in blocks) + "\n"
    return text, {"extensions": n_ext, "blocks": len(blocks), "split_types": split_types}
