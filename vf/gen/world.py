# -*- coding: utf-8 -*-
"""
G-WORLD: a resolver world is a pure seeded function
    (type, field, parent object id, argument salt) -> outcome
shared by the harness resolvers (which turn outcomes into python values or raised
exceptions) and by R-EXEC (which predicts the response). It is *input* to both,
never part of the algorithm under test.
"""
import collections
import collections.abc
import json
import random

from ..core import h64
from . import schemair as S


class Crash(Exception):
    """An unexpected (non-ResolverError) exception raised by a resolver."""


class CrashBase(BaseException):
    """An unexpected exception that is no Exception (what `sys.exit()` or a cancellation signal inside application code
    raises): a pool stores it as the task's outcome like any other."""


# the library's own control flow uses some built-in exception classes (IndexError to end a loop,
# KeyError / AttributeError in look-ups, ...): a resolver raising one of them is still unexpected
CRASH_CLASSES = [Crash] + [type("Crash" + b.__name__, (Crash, b), {})
                           for b in (IndexError, IndexError, IndexError, KeyError, KeyError, AttributeError, TypeError, ValueError, LookupError,
                                     AssertionError, RuntimeError)]


DISTINCT_CRASH_CLASSES = []
for _c in CRASH_CLASSES:
    if _c.__name__ not in [x.__name__ for x in DISTINCT_CRASH_CLASSES]:
        DISTINCT_CRASH_CLASSES.append(_c)


# StopIteration cannot travel through generators, coroutines and futures as it is (PEP 479): only where a check
# asks for it by name
DISTINCT_CRASH_CLASSES.append(type("CrashStopIteration", (Crash, StopIteration), {}))

_LIBRARY_CRASH = []


def library_crash_class_2():
    """Same, deriving from the library's CoercionError (which the executors raise and catch around argument
    coercion): raised by a resolver it is no argument problem."""
    if len(_LIBRARY_CRASH) < 2:
        library_crash_class()
        from py_gql.exc import CoercionError

        _LIBRARY_CRASH.append(type("CrashCoercionError", (Crash, CoercionError), {}))
    return _LIBRARY_CRASH[1]


def library_crash_class_n(n):
    """Same, deriving from the two library errors the entry points turn into error responses when they come out of
    operation selection / variable coercion (n = 2, 3): raised by a resolver they are unexpected like any other."""
    while len(_LIBRARY_CRASH) < 4:
        library_crash_class_2()
        from py_gql.exc import InvalidOperationError, VariablesCoercionError

        class CrashInvalidOperationError(Crash, InvalidOperationError):
            pass

        class CrashVariablesCoercionError(Crash, VariablesCoercionError):
            def __init__(self, message):
                Crash.__init__(self, message)
                self.errors = []

        _LIBRARY_CRASH.extend([CrashInvalidOperationError, CrashVariablesCoercionError])
    return _LIBRARY_CRASH[n]


def library_crash_class():
    """An application exception that happens to derive from the library's ExecutionError (not from its resolver
    error): still nothing a resolver is supposed to raise, hence unexpected."""
    if not _LIBRARY_CRASH:
        from py_gql.exc import ExecutionError

        _LIBRARY_CRASH.append(type("CrashExecutionError", (Crash, ExecutionError), {}))
    return _LIBRARY_CRASH[0]


def crash(message, forced=None):
    from ..core import h64

    if forced is not None:
        return forced(message)
    return CRASH_CLASSES[int(h64(message)[:6], 16) % len(CRASH_CLASSES)](message)


def message_as_raised(message):
    """Resolvers may raise the resolver error without any message: an eighth of the world's do."""
    from ..core import h64

    return "" if int(h64(message)[4:8], 16) % 8 == 0 else message


_OWN_CTOR = []


def _own_constructor_error():
    if not _OWN_CTOR:
        from py_gql.exc import ResolverError

        class QuotaExceeded(ResolverError):
            def __init__(self, limit, message, extensions):
                super().__init__(message, extensions=extensions)
                self.limit = limit

        _OWN_CTOR.append(QuotaExceeded)
    return _OWN_CTOR[0]


class LooseStr(object):
    """A value of a String field that is not a str: it prints as its text, and compares (and hashes) equal to every
    other such value of the same length - equal values need not serialise alike (Decimal('1.10') == Decimal('1.1'))."""

    def __init__(self, text):
        self.text = text

    def __str__(self):
        return self.text

    def __eq__(self, other):
        return isinstance(other, LooseStr) and len(other.text) == len(self.text)

    def __hash__(self):
        return hash(("LooseStr", len(self.text)))


class ErrText(Exception):
    """An exception instance that is a *value*: the application hands the error object it caught to a String field
    (`lastError: String`), which serialises it through str(). It is never raised."""

    def __init__(self, text):
        Exception.__init__(self, text)
        self.text = text

    def __str__(self):
        return self.text


def _error_as_value(item):
    from ..core import h64

    if isinstance(item, str) and int(h64("errtext:" + item)[:2], 16) % 2 == 0:
        return ErrText(item)
    return item


def _loosen(v):
    from ..core import h64

    if isinstance(v, list):
        return [_loosen(x) for x in v]
    if isinstance(v, str) and int(h64(v)[:2], 16) % 3 == 0:
        return LooseStr(v)
    return v


class _Awaitable(object):
    def __init__(self, coro):
        self._coro = coro

    def __await__(self):
        return self._coro.__await__()


class _UpstreamResponse(object):
    def __init__(self, reason, extensions):
        self.reason, self.extensions = reason, extensions


def _own_constructor_error_2():
    if len(_OWN_CTOR) < 2:
        _own_constructor_error()
        from py_gql.exc import ResolverError

        class UpstreamFailed(ResolverError):
            def __init__(self, response):
                super().__init__(response.reason, extensions=response.extensions)

        _OWN_CTOR.append(UpstreamFailed)
    return _OWN_CTOR[1]


def salt_of(kwargs):
    """Canonical text of coerced arguments (python names / internal enum values)."""
    def c(v):
        if isinstance(v, dict):
            return {"d": sorted([[k, c(x)] for k, x in v.items()], key=lambda kv: kv[0])}
        if isinstance(v, (list, tuple)):
            return {"l": [c(x) for x in v], "t": type(v).__name__}
        if isinstance(v, float):
            return {"f": repr(v)}
        if isinstance(v, bool) or v is None or isinstance(v, (int, str)):
            return {"v": v, "t": type(v).__name__}
        return {"r": repr(v)}
    if not kwargs:
        return ""
    return json.dumps(c(dict(kwargs)), sort_keys=True)


class Obj(object):
    """Abstract description of an object value in the world."""
    __slots__ = ("type", "oid")

    def __init__(self, type_, oid):
        self.type, self.oid = type_, oid

    def __repr__(self):
        return "Obj(%s,%s)" % (self.type, self.oid)


class World(object):
    def __init__(self, schema, seed, p_null=0.12, p_null_in_nonnull=0.04, p_error=0.07, p_crash=0.0,
                 served=None, p_type_error=None):
        self.s = schema
        self.seed = seed
        self.p_null, self.p_nn, self.p_error, self.p_crash = p_null, p_null_in_nonnull, p_error, p_crash
        # resolve_type failures come with resolver errors: worlds without the latter have none
        self.p_type_error = (0.1 if p_error else 0.0) if p_type_error is None else p_type_error
        self._served = {}
        r = random.Random("served:%s" % seed)
        # applications tend to serve all their types the same way (one ORM class, plain dicts):
        # a fifth of the worlds are all-object, a tenth all-dict, the rest mixed per type
        style = r.random()
        for t in schema.types.values():
            if t.kind == "object":
                mode = r.choice(["resolver", "resolver", "resolver", "dict", "object"])
                if style < 0.2:
                    mode = "object"
                elif style < 0.3:
                    mode = "dict"
                self._served[t.name] = (served or {}).get(t.name) or mode
        self._abstract = {}
        for t in schema.types.values():
            if t.kind in ("interface", "union"):
                self._abstract[t.name] = r.choice(["__typename__", "fn-type", "fn-name"])

    def served_by(self, typename):
        return self._served[typename]

    def abstract_mode(self, typename):
        return self._abstract[typename]

    def type_resolution_fails(self, abstract_name, obj):
        """Type resolvers written as functions raise the resolver error for a few objects."""
        if not self.p_type_error or self._abstract.get(abstract_name) == "__typename__":
            return False
        return self.rnd("type-error", abstract_name, obj.type, obj.oid).random() < self.p_type_error

    def rnd(self, *key):
        return random.Random("%s|%s" % (self.seed, "|".join(map(str, key))))

    def root(self, typename):
        return Obj(typename, "root")

    # -- outcomes -----------------------------------------------------------
    def outcome(self, typename, fieldname, oid, salt):
        """("value", v) | ("error", message, extensions) | ("crash", message).
        v is built from None, scalars' natural python values, enum internal values,
        lists and Obj instances."""
        st = self.s.types[typename]
        f = st.field(fieldname)
        served = self._served[typename]
        if served == "dict" or (served == "object" and not f.args):
            salt = ""           # the default resolver ignores arguments here
        rnd = self.rnd(typename, fieldname, oid, salt)
        can_fail = served == "resolver" or (served == "object" and f.args)
        r = rnd.random()
        if can_fail and r < self.p_error:
            ext = None
            if rnd.random() < 0.5:
                ext = {"code": "E%d" % rnd.randint(1, 9), "detail": [1, {"k": "v"}]}
            return ("error", "resolver error at %s.%s#%s" % (typename, fieldname, oid), ext)
        if can_fail and r < self.p_error + self.p_crash:
            return ("crash", "unexpected failure at %s.%s#%s" % (typename, fieldname, oid))
        base = h64([oid, fieldname, salt])
        return ("value", self._gen_nullable(f.type, rnd, base))

    def _gen_nullable(self, t, rnd, base):
        if t[0] == "nonnull":
            if rnd.random() < self.p_nn:
                return None
            return self._gen_core(t[1], rnd, base)
        if rnd.random() < self.p_null:
            return None
        return self._gen_core(t, rnd, base)

    def _gen_core(self, t, rnd, base):
        if t[0] == "list":
            n = rnd.choice([0, 1, 2, 2, 3])
            return [self._gen_nullable(t[1], rnd, "%s.%d" % (base, i)) for i in range(n)]
        name = t[1]
        if name == "Int":
            return rnd.choice([0, 1, -7, 2147483646, rnd.randint(-10 ** 6, 10 ** 6)])
        if name == "Float":
            return rnd.choice([0.5, -1.25, 3, 1e6, rnd.random()])
        if name == "String":
            return rnd.choice(["s", "", "é", "a b", "str%d" % rnd.randint(0, 99)])
        if name == "Boolean":
            return rnd.random() < 0.5
        if name == "ID":
            return rnd.choice(["id-%d" % rnd.randint(0, 99), rnd.randint(0, 99)])
        st = self.s.types[name]
        if st.kind == "scalar":
            if st.strict:
                return ("scalar", name, str(rnd.randint(0, 99)))
            # (only in worlds that may put nulls into non-null positions at all)
            if getattr(st, "vanishing", False) and self.p_nn and rnd.random() < 0.3:
                return S.VANISH
            # (1 == True == 1.0 and 0 == False == 0.0, hash-equal too: equal values need not serialise alike)
            return rnd.choice(["free", 12, 1.5, True, ["nested", 1], {"k": [1, 2]}, 1, 1.0, True, 0, False, 0.0])
        if st.kind == "enum":
            return rnd.choice(st.values).value
        if st.kind == "object":
            return Obj(name, h64(base))
        poss = self.s.possible_types(name)
        return Obj(rnd.choice(sorted(poss)), h64(base))


def serialize_leaf(s, name, v):
    """What CompleteValue must produce for a natural leaf value."""
    if name == "Int":
        return v
    if name == "Float":
        return float(v)
    if name == "String":
        return str(v)
    if name == "Boolean":
        return bool(v)
    if name == "ID":
        return str(v)
    st = s.types[name]
    if st.kind == "scalar":
        if st.strict:
            return "%s:%s" % (name, v[2])
        if getattr(st, "vanishing", False) and v == S.VANISH:
            return None
        return v
    if st.kind == "enum":
        for ev in st.values:
            if type(ev.value) == type(v) and ev.value == v:
                return ev.name
    raise AssertionError((name, v))


# ---------------------------------------------------------------------------
# binding the world to a py_gql schema
# ---------------------------------------------------------------------------


class LazyDict(dict):
    """Mapping root served by the default resolver; values are produced on lookup."""

    def __init__(self, binding, obj):
        dict.__init__(self)
        self["__typename__"] = obj.type
        self._binding, self._obj = binding, obj

    def get(self, key, default=None):
        if key == "__typename__":
            return dict.get(self, key)
        f = self._binding.field_by_pyname(self._obj.type, key)
        if f is None:
            return default
        return self._binding.produce(self._obj, f, {})


class LazyMapping(collections.abc.Mapping):
    """A mapping that is not a dict (what MappingProxyType, ChainMap or a row object of a database driver are);
    it also carries its type name as an attribute, which is where non-dict values are asked for it."""

    def __init__(self, binding, obj):
        self._binding, self._obj = binding, obj
        self.__typename__ = obj.type

    def _names(self):
        return ["__typename__"] + [f.python_name or f.name for f in self._binding.s.types[self._obj.type].fields]

    def __getitem__(self, key):
        if key == "__typename__":
            return self._obj.type
        f = self._binding.field_by_pyname(self._obj.type, key)
        if f is None:
            raise KeyError(key)
        return self._binding.produce(self._obj, f, {})

    def __contains__(self, key):
        return key == "__typename__" or self._binding.field_by_pyname(self._obj.type, key) is not None

    def __iter__(self):
        return iter(self._names())

    def __len__(self):
        return len(self._names())


class LazyObject(object):
    """Plain object root served by the default resolver (attributes / methods)."""

    def __init__(self, binding, obj):
        self.__dict__["_binding"] = binding
        self.__dict__["_obj"] = obj
        self.__dict__["__typename__"] = obj.type

    def __getattr__(self, key):
        if key.startswith("__") and key != "__typename__":
            raise AttributeError(key)
        binding, obj = self.__dict__["_binding"], self.__dict__["_obj"]
        f = binding.field_by_pyname(obj.type, key)
        if f is None:
            raise AttributeError(key)
        if f.args:
            def method(context, info, **kwargs):
                return binding.produce(obj, f, kwargs, info)
            return method
        value = binding.produce(obj, f, {})
        if callable(value):
            # the default resolver calls callable attributes (documented: they are methods); a value that happens
            # to be callable therefore has to be handed over by a method
            return lambda context, info, **kwargs: value
        return value


class EqualResolver(object):
    """Equal to (and hashing like) every other instance, interchangeable with none."""

    def __init__(self, fn):
        self.fn = fn
        self.__name__ = fn.__name__

    def __call__(this, parent, context, info, /, **kwargs):      # arguments may be called `self`
        return this.fn(parent, context, info, **kwargs)

    def __eq__(self, other):
        return isinstance(other, EqualResolver)

    def __hash__(self):
        return 7


class UnhashableResolver(object):
    def __init__(self, fn):
        self.fn = fn
        self.__name__ = fn.__name__

    def __call__(this, parent, context, info, /, **kwargs):
        return this.fn(parent, context, info, **kwargs)

    def __eq__(self, other):
        return isinstance(other, UnhashableResolver) and other.fn is self.fn

    __hash__ = None


class FalsyResolver(object):
    def __init__(self, fn):
        self.fn = fn
        self.__name__ = fn.__name__

    def __call__(this, parent, context, info, /, **kwargs):
        return this.fn(parent, context, info, **kwargs)

    def __len__(self):
        return 0


RESOLVER_OBJECT_CLASSES = [EqualResolver, UnhashableResolver, FalsyResolver]


class Binding(object):
    """Turns world outcomes into python values for the library and records invocations."""

    def __init__(self, world, log=None, wrap=None, resolver_error_cls=None):
        self.world = world
        self.s = world.s
        self.log = log            # optional callable(event_dict)
        self.wrap = wrap          # optional: (typename, fieldname, thunk, info) -> value (deferred execution)
        self.calls = []           # (typename, fieldname, oid, kwargs)
        self.async_fields = set() # (typename, fieldname) served by coroutine resolvers
        self.submit_fields = set()  # (typename, fieldname) whose resolver hands its work to info.runtime.submit()
        self.gates = None         # sched.Gates of the current asyncio run
        self._py = {}
        for t in self.s.types.values():
            if t.kind == "object":
                self._py[t.name] = dict(((f.python_name or f.name), f) for f in t.fields)

    def field_by_pyname(self, typename, key):
        return self._py.get(typename, {}).get(key)

    def to_python(self, v):
        if isinstance(v, Obj):
            mode = self.world.served_by(v.type)
            if mode == "dict":
                # a third of the dict-served objects are mappings that are not dicts
                if int(h64("mapping:" + v.oid)[:2], 16) % 3 == 0:
                    return LazyMapping(self, v)
                return LazyDict(self, v)
            if mode == "object":
                return LazyObject(self, v)
            return {"__typename__": v.type, "oid": v.oid, "__obj__": v}
        if isinstance(v, list):
            return [self.to_python(x) for x in v]
        return v

    def obj_of(self, parent):
        if isinstance(parent, (LazyDict, LazyMapping)):
            return parent._obj
        if isinstance(parent, LazyObject):
            return parent.__dict__["_obj"]
        return parent["__obj__"]

    def produce(self, obj, f, kwargs, info=None):
        from py_gql.exc import ResolverError

        salt = salt_of(kwargs)
        self.calls.append((obj.type, f.name, obj.oid, dict(kwargs)))
        out = self.world.outcome(obj.type, f.name, obj.oid, salt)
        if out[0] == "error":
            from ..core import h64

            if int(h64(out[1])[:4], 16) % 4 == 0:
                # a resolver relaying an upstream error may have set a path of its own: the response
                # still has to report the path of the field that failed here
                raise ResolverError(message_as_raised(out[1]), path=["upstream", 3, "field"], extensions=out[2])
            if not out[2] and message_as_raised(out[1]) == "":
                # one exception *instance* raised by many resolvers, request after request (a module
                # level constant in the application)
                if getattr(self, "_shared_error", None) is None:
                    self._shared_error = ResolverError("")
                raise self._shared_error
            if int(h64(out[1])[12:16], 16) % 4 == 0:
                # one instance per failure site, raised again whenever the site fails again: in a later request, from
                # another document, at another response position (errors kept as constants by the application)
                shared = self.__dict__.setdefault("_shared_by_message", {})
                key = (out[1], repr(out[2]))
                if key not in shared:
                    shared[key] = ResolverError(message_as_raised(out[1]), extensions=out[2])
                raise shared[key]
            sel = int(h64(out[1])[8:12], 16)
            if sel % 3 == 0:
                # an application error class deriving from the resolver error with a constructor of its own:
                # copy.copy() / pickling cannot rebuild it from .args (TypeError for one class, AttributeError
                # for the other: the constructor reads an attribute of what it is given)
                if sel % 2:
                    raise _own_constructor_error()(42, message_as_raised(out[1]), out[2])
                raise _own_constructor_error_2()(_UpstreamResponse(message_as_raised(out[1]), out[2]))
            if sel % 3 == 1:
                # the application looks at the error before raising it (logging, auditing): rendering an error
                # early must not freeze what it says later, once the library has given it a path and a location
                err = ResolverError(message_as_raised(out[1]), extensions=out[2])
                try:
                    err.to_dict()
                    str(err)
                except Exception:
                    pass
                raise err
            raise ResolverError(message_as_raised(out[1]), extensions=out[2])
        if out[0] == "crash":
            raise crash(out[1], getattr(self, "crash_class", None))
        if getattr(self, "loose_strings", False) and S.unwrap(f.type) == "String":
            return _loosen(self.to_python(out[1]))
        return self.to_python(out[1])

    def resolver_for(self, typename, fieldname):
        if self.world.served_by(typename) != "resolver":
            return None
        f = self.s.types[typename].field(fieldname)
        binding = self
        submits = (typename, fieldname) in self.submit_fields

        def resolver(parent, context, info, **kwargs):
            obj = binding.obj_of(parent)
            if binding.log is not None:
                binding.log({"ev": "resolver_start", "type": typename, "field": fieldname,
                             "path": list(info.path), "kwargs": kwargs})
            if submits and f.type[0] == "list" and len(fieldname) % 2:
                # a per-request loader: one task per *distinct* item, equal items share the task (the very same
                # future then sits at several positions of what is gathered)
                value = binding._finish(obj, f, kwargs, info)
                if isinstance(value, list) and value:
                    tasks = {}
                    futures = []
                    for item in value:
                        # (objects are told apart by what they stand for: a lazily filled mapping prints as empty)
                        try:
                            o = binding.obj_of(item)
                            key = "object:%s:%s" % (o.type, o.oid)
                        except Exception:
                            key = repr(item)
                        if key not in tasks:
                            # (string items may come back as exception *instances*: values, never raised)
                            tasks[key] = info.runtime.submit(
                                (lambda item=item: _error_as_value(item)) if S.unwrap(f.type) == "String"
                                else (lambda item=item: item))
                        futures.append(tasks[key])
                    return info.runtime.gather_values(futures)
                return value
            if submits:
                # the resolver's own result is whatever the runtime hands back for a submitted task
                # (a value, a concurrent future, an asyncio future)
                return info.runtime.submit(lambda: binding._finish(obj, f, kwargs, info))
            if binding.wrap is not None:
                return binding.wrap(typename, fieldname, lambda: binding._finish(obj, f, kwargs, info), info)
            return binding._finish(obj, f, kwargs, info)

        async def aresolver(parent, context, info, **kwargs):
            obj = binding.obj_of(parent)
            if binding.log is not None:
                binding.log({"ev": "resolver_start", "type": typename, "field": fieldname,
                             "path": list(info.path), "kwargs": kwargs})
            await binding.gates.wait(tuple(info.path))
            if tuple(info.path) in getattr(binding, "cancel_paths", ()):
                # the resolver's in-flight work was cancelled (a timeout guard, a client shutting down)
                import asyncio

                raise asyncio.CancelledError()
            if submits:
                return info.runtime.submit(lambda: binding._finish(obj, f, kwargs, info))
            return binding._finish(obj, f, kwargs, info)

        if (typename, fieldname) in self.async_fields:
            aresolver.__name__ = "aresolve_%s_%s" % (typename, fieldname)
            if int(h64("awaitable:" + typename + "." + fieldname)[:2], 16) % 4 == 0:
                # a plain function handing back an awaitable that is neither a coroutine nor a future (an object
                # with __await__, what many client libraries return)
                def awaitable_resolver(parent, context, info, **kwargs):
                    return _Awaitable(aresolver(parent, context, info, **kwargs))

                awaitable_resolver.__name__ = "awaitable_%s_%s" % (typename, fieldname)
                return awaitable_resolver
            return aresolver
        resolver.__name__ = "resolve_%s_%s" % (typename, fieldname)
        sel = int(h64("resolver-object:%s.%s" % (typename, fieldname))[:4], 16) % 12
        if sel < 3 and not getattr(self, "plain_function_resolvers_only", False):
            # resolvers are arbitrary callables: objects that compare equal to one another (frozen dataclasses with a
            # field left out of the comparison), that cannot be hashed, or that are falsy (they define __len__)
            return RESOLVER_OBJECT_CLASSES[sel](resolver)
        return resolver

    def _finish(self, obj, f, kwargs, info):
        try:
            return self.produce(obj, f, kwargs, info)
        finally:
            if self.log is not None:
                self.log({"ev": "resolver_end", "type": obj.type, "field": f.name, "path": list(info.path)})

    def type_resolver_for(self, typename):
        mode = self.world.abstract_mode(typename)
        if mode == "__typename__":
            return None
        binding = self

        def resolve_type(value, context, info):
            obj = binding.obj_of(value)
            if binding.world.type_resolution_fails(typename, obj):
                from py_gql.exc import ResolverError

                raise ResolverError("resolver error at type resolution")
            tname = obj.type
            if mode == "fn-name":
                return tname
            return info.schema.get_type(tname)

        return resolve_type

    def root_value(self, typename):
        return self.to_python(self.world.root(typename))
