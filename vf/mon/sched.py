# -*- coding: utf-8 -*-
"""
Schedule control for the deferred runtimes (DESIGN.md 3.4).

* ThreadPoolRuntime: ``_inner`` is replaced by a ControlledPool whose ``submit`` parks the task;
  the driver completes one parked task at a time in the order chosen by a schedule; the library's
  future callbacks fire synchronously from ``set_result`` / ``set_exception``.
* AsyncIORuntime: coroutine resolvers await a harness-owned gate future; synchronous resolvers
  shipped to ``run_in_executor`` are parked by the same ControlledPool installed as the loop's
  default executor; the driver runs the loop to quiescence, then releases one gate / parked task.

Everything runs in one thread, so an execution is a deterministic function of its schedule (a
list of choice indices). ``explore`` enumerates schedules depth-first (all completion orders of
the partial order induced by the operation) up to a bound, then samples.
"""
import asyncio
import collections
import itertools
import threading
import warnings
from concurrent.futures import Future, ThreadPoolExecutor


class EventLog(object):
    """Thread-safe append-only log with a logical clock."""

    def __init__(self):
        self._lock = threading.Lock()
        self._clock = itertools.count()
        self.events = []

    def __call__(self, ev):
        with self._lock:
            ev = dict(ev)
            ev["t"] = next(self._clock)
            ev["thread"] = threading.get_ident()
            self.events.append(ev)


def label_of(fn, args):
    """Response path of the resolver invocation a parked task stands for."""
    a = args
    if hasattr(fn, "args") and not a:      # functools.partial from run_in_executor
        a = fn.args
    for x in a:
        p = getattr(x, "path", None)
        if isinstance(p, list):
            return tuple(p)
    return ("?",)


class BlockingWaitOnPendingFuture(RuntimeError):
    pass


class MonitoredFuture(Future):
    """futures_mon: substituted for ``Future`` in the namespace of runtime/threadpool.py while a
    controlled schedule runs. Counts creations / resolutions and turns a blocking wait on a pending
    future (which can never be satisfied when every completion is driven from this one thread) into
    an exception instead of a hang."""

    stats = collections.Counter()
    registry = []

    def __init__(self):
        Future.__init__(self)
        MonitoredFuture.stats["created"] += 1
        MonitoredFuture.registry.append(self)

    def result(self, timeout=None):
        if not self.done():
            MonitoredFuture.stats["blocking_wait_on_pending"] += 1
            raise BlockingWaitOnPendingFuture("result() called on a pending future in a single-threaded schedule")
        return Future.result(self, timeout)

    def set_result(self, result):
        MonitoredFuture.stats["set_result"] += 1
        try:
            return Future.set_result(self, result)
        except Exception:
            MonitoredFuture.stats["double_resolution"] += 1
            raise

    def set_exception(self, exc):
        MonitoredFuture.stats["set_exception"] += 1
        try:
            return Future.set_exception(self, exc)
        except Exception:
            MonitoredFuture.stats["double_resolution"] += 1
            raise

    @classmethod
    def reset(cls):
        cls.stats = collections.Counter()
        cls.registry = []


class ControlledPool(ThreadPoolExecutor):
    """``eager_chooser``: when set, every submission first asks the schedule whether the task has
    already finished by the time ``submit`` returns (a fast worker thread) or is parked."""

    def __init__(self, eager_chooser=None):
        ThreadPoolExecutor.__init__(self, max_workers=1)
        self.parked = []
        self.completed = []
        self.eager_chooser = eager_chooser
        self.eager_trace = None

    def submit(self, fn, /, *args, **kwargs):
        f = MonitoredFuture()
        self.parked.append((f, fn, args, kwargs, label_of(fn, args)))
        if self.eager_chooser is not None and self.eager_chooser.choose(2) == 1:
            label = self.run(len(self.parked) - 1)
            if self.eager_trace is not None:
                self.eager_trace.append(("done-at-submit",) + tuple(label))
        return f

    def pending_labels(self):
        return [p[4] for p in self.parked]

    def run(self, index):
        f, fn, args, kwargs, label = self.parked.pop(index)
        self.completed.append(label)
        try:
            r = fn(*args, **kwargs)
        except BaseException as e:  # noqa
            try:
                f.set_exception(e)
            except BaseException:  # noqa
                # a done-callback let a BaseException escape: a real worker thread would die with it
                self.escaped_from_callbacks = getattr(self, "escaped_from_callbacks", 0) + 1
        else:
            try:
                f.set_result(r)
            except BaseException as e2:  # noqa
                if isinstance(e2, Exception):
                    raise
                self.escaped_from_callbacks = getattr(self, "escaped_from_callbacks", 0) + 1
        return label


class Gates(object):
    """Harness-owned gates for coroutine resolvers on the asyncio runtime."""

    def __init__(self, loop):
        self.loop = loop
        self.parked = []

    def wait(self, label):
        g = self.loop.create_future()
        self.parked.append((g, label))
        return g

    def pending_labels(self):
        return [p[1] for p in self.parked]

    def open(self, index):
        g, label = self.parked.pop(index)
        if not g.done():
            g.set_result(None)
        return label


class Chooser(object):
    """Replays a schedule prefix, then always picks alternative 0; records branching factors."""

    def __init__(self, prefix=(), rng=None):
        self.prefix = list(prefix)
        self.rng = rng
        self.taken = []
        self.widths = []

    def choose(self, n):
        i = len(self.taken)
        if i < len(self.prefix):
            c = self.prefix[i]
            if c >= n:
                c = n - 1
        elif self.rng is not None:
            c = self.rng.randrange(n)
        else:
            c = 0
        self.taken.append(c)
        self.widths.append(n)
        return c


def next_prefix(taken, widths):
    """Depth-first successor of a fully recorded schedule, or None when exhausted."""
    i = len(taken) - 1
    while i >= 0:
        if taken[i] + 1 < widths[i]:
            return taken[:i] + [taken[i] + 1]
        i -= 1
    return None


def explore(run_with, max_exhaustive, n_samples, rng):
    """run_with(chooser) -> outcome. Yields (schedule, labels, outcome, exhaustive_flag).
    Exhaustive DFS while the count stays <= max_exhaustive, otherwise random samples."""
    prefix = []
    count = 0
    exhausted = False
    while True:
        ch = Chooser(prefix)
        out = run_with(ch)
        count += 1
        yield list(ch.taken), out, True
        nxt = next_prefix(ch.taken, ch.widths)
        if nxt is None:
            exhausted = True
            break
        if count >= max_exhaustive:
            break
        prefix = nxt
    if not exhausted:
        for _ in range(n_samples):
            ch = Chooser((), rng)
            out = run_with(ch)
            yield list(ch.taken), out, False


LAST_FUTURE_STATS = collections.Counter()
LAST_FRONTIER = []      # labels of the coroutine resolvers suspended at the first quiescent point of the last asyncio run


def normalise(result):
    from .exec_mon import error_paths

    return ("ok", result.data, error_paths(result), result)


# ---------------------------------------------------------------------------
# thread-pool runtime, controlled
# ---------------------------------------------------------------------------


def run_threadpool(chooser, schema, text, kwargs, eager=False):
    """Returns (outcome, trace). outcome: ("ok", data, error_paths, result) | ("raised", exc)
    | ("stuck", detail)."""
    import py_gql
    from py_gql.execution import Executor
    from py_gql.execution.runtime import ThreadPoolRuntime

    import py_gql.execution.runtime.threadpool as m_tp

    rt = ThreadPoolRuntime(max_workers=1)
    rt._inner.shutdown(wait=False)
    pool = ControlledPool(chooser if eager else None)
    rt._inner = pool
    trace = []
    pool.eager_trace = trace
    original_future = m_tp.Future
    m_tp.Future = MonitoredFuture
    MonitoredFuture.reset()
    try:
        try:
            fut = py_gql.process_graphql_query(schema, text, runtime=rt, executor_cls=Executor, **kwargs)
        except BaseException as e:  # noqa
            pool.shutdown(wait=False)
            return ("raised", e), trace
        steps = 0
        while pool.parked and steps < 100000:
            idx = chooser.choose(len(pool.parked))
            trace.append(pool.run(idx))
            steps += 1
        pool.shutdown(wait=False)
    finally:
        m_tp.Future = original_future
    LAST_FUTURE_STATS.clear()
    LAST_FUTURE_STATS.update(MonitoredFuture.stats)
    LAST_FUTURE_STATS["pending_at_quiescence"] = sum(1 for f in MonitoredFuture.registry if not f.done())
    if not fut.done():
        return ("stuck", "all %d submitted tasks completed, result future still pending (futures: %r)"
                % (steps, dict(LAST_FUTURE_STATS))), trace
    try:
        res = fut.result()
    except BaseException as e:  # noqa
        return ("raised", e), trace
    return normalise(res), trace


# ---------------------------------------------------------------------------
# asyncio runtime, controlled
# ---------------------------------------------------------------------------


def settle(loop, limit=100000):
    """Run the loop until no callback is ready (logical quiescence)."""
    n = 0
    while loop._ready:
        loop.call_soon(loop.stop)
        loop.run_forever()
        n += 1
        if n > limit:
            raise RuntimeError("event loop does not settle")


def run_asyncio(chooser, schema, text, kwargs, in_thread, make_binding_async, eager=False):
    """make_binding_async(gates) switches the case's coroutine resolvers to the gates of this run.
    Returns (outcome, trace)."""
    import py_gql
    from py_gql.execution import Executor
    from py_gql.execution.runtime import AsyncIORuntime

    loop = asyncio.new_event_loop()
    pool = ControlledPool(chooser if eager else None)
    loop.set_default_executor(pool)
    gates = Gates(loop)
    make_binding_async(gates)
    trace = []
    pool.eager_trace = trace
    rt = AsyncIORuntime(loop=loop, execute_blocking_functions_in_thread=in_thread)
    try:
        with warnings.catch_warnings():
            warnings.simplefilter("ignore", RuntimeWarning)
            try:
                aw = py_gql.process_graphql_query(schema, text, runtime=rt, executor_cls=Executor, **kwargs)
            except BaseException as e:  # noqa
                return ("raised", e), trace
            task = asyncio.ensure_future(aw, loop=loop)
            settle(loop)
            # what is in flight before anything was allowed to complete
            LAST_FRONTIER[:] = [tuple(l) for l in gates.pending_labels()]
            steps = 0
            while (pool.parked or gates.parked) and not task.done():
                n = len(pool.parked) + len(gates.parked)
                idx = chooser.choose(n)
                if idx < len(pool.parked):
                    trace.append(("pool",) + tuple(pool.run(idx)))
                else:
                    trace.append(("gate",) + tuple(gates.open(idx - len(pool.parked))))
                settle(loop)
                steps += 1
            if not task.done():
                return ("stuck", "no gate or parked task left, loop quiescent, result task pending"), trace
            # release what is left so that no coroutine stays suspended (crash cases)
            leftovers = len(pool.parked) + len(gates.parked)
            try:
                res = task.result()
            except BaseException as e:  # noqa
                out = ("raised", e)
            else:
                out = normalise(res)
            while pool.parked or gates.parked:
                if pool.parked:
                    pool.run(0)
                else:
                    gates.open(0)
                settle(loop)
            for t in asyncio.all_tasks(loop):
                t.cancel()
            settle(loop)
            return out, trace
    finally:
        pool.shutdown(wait=False)
        try:
            loop.run_until_complete(loop.shutdown_asyncgens())
        except Exception:
            pass
        loop.close()
