# -*- coding: utf-8 -*-
"""
instr_mon: recording Instrumentation / middlewares sharing one EventLog, and the offline
checkers over the recorded log (stage grammar, field exactly-once pairing, middleware
traversal, stack order of combined instrumentations, serial order of mutations).
"""
STAGES = ("query", "parsing", "validation", "execution")


HOOKS_ON_INSTANCES = [False]   # switch: odd-tagged recorders carry their hooks on the instance, not on the class


def make_instrumentation(log, tag):
    from py_gql.execution import Instrumentation

    if HOOKS_ON_INSTANCES[0] and isinstance(tag, int) and tag < 100 and tag % 2 == 1:
        HOOKS_ON_INSTANCES[0] = False
        try:
            template = make_instrumentation(log, tag)
        finally:
            HOOKS_ON_INSTANCES[0] = True

        class FromCallbacks(Instrumentation):
            """Overrides nothing itself: every hook is an attribute of the instance."""

            def __init__(self, **callbacks):
                for name, fn in callbacks.items():
                    setattr(self, name, fn)

        return FromCallbacks(**dict((h, getattr(template, h)) for h in HOOKS))

    class Rec(Instrumentation):
        def on_query_start(self):
            log({"ev": "stage", "stage": "query", "edge": "start", "tag": tag})

        def on_query_end(self):
            log({"ev": "stage", "stage": "query", "edge": "end", "tag": tag})

        def on_parsing_start(self):
            log({"ev": "stage", "stage": "parsing", "edge": "start", "tag": tag})

        def on_parsing_end(self):
            log({"ev": "stage", "stage": "parsing", "edge": "end", "tag": tag})

        def on_validation_start(self):
            log({"ev": "stage", "stage": "validation", "edge": "start", "tag": tag})

        def on_validation_end(self):
            log({"ev": "stage", "stage": "validation", "edge": "end", "tag": tag})

        def on_execution_start(self):
            log({"ev": "stage", "stage": "execution", "edge": "start", "tag": tag})

        def on_execution_end(self):
            log({"ev": "stage", "stage": "execution", "edge": "end", "tag": tag})

        def on_field_start(self, root, context, info):
            log({"ev": "field", "edge": "start", "tag": tag, "path": tuple(info.path)})

        def on_field_end(self, root, context, info):
            log({"ev": "field", "edge": "end", "tag": tag, "path": tuple(info.path)})

    return Rec()


HOOKS = ["on_query_start", "on_query_end", "on_parsing_start", "on_parsing_end", "on_validation_start",
         "on_validation_end", "on_execution_start", "on_execution_end", "on_field_start", "on_field_end"]
PARTIAL_TAG = 100
FALSY_SINGLE = [False]     # switch: a lone recording instrumentation is built as a falsy object
GROUP_TAG = 900


def make_partial(log, tag, hooks):
    """A member that overrides only some hooks (e.g. only on_field_end) and inherits the no-ops."""
    from py_gql.execution import Instrumentation

    full = make_instrumentation(log, tag)
    ns = dict((h, getattr(type(full), h)) for h in hooks)
    return type("Partial", (Instrumentation,), ns)()


def partial_spec(rng, k):
    """[(tag, hooks, position)] for 0-2 partial members stacked among k full ones."""
    out = []
    for i in range(rng.choice([0, 0, 1, 1, 2])):
        hooks = rng.sample(HOOKS, rng.randint(1, 4)) if rng.random() < 0.6 else [rng.choice(HOOKS)]
        out.append((PARTIAL_TAG + i, sorted(hooks), rng.randint(0, k)))
    return out


def make_instrumentations(log, k, partials=(), nest=None):
    from py_gql.execution import MultiInstrumentation

    recs = [make_instrumentation(log, i) for i in range(k)]
    if k == 1 and not partials and nest is None:
        if FALSY_SINGLE[0]:
            # an instrumentation object may well be falsy (a collecting tracer that defines __len__ and has not
            # collected anything yet): it is still the configured instrumentation
            cls = type(recs[0])
            return type("EmptyCollector", (cls,), {"__len__": lambda self: 0})()
        return recs[0]
    members = list(recs)
    for tag, hooks, pos in partials:
        members.insert(min(pos, len(members)), make_partial(log, tag, hooks))
    if nest is not None and len(members) >= 2:
        # stacks may contain stacks (plain ones and subclasses that have hooks of their own, which then
        # fire around their members'): the flattened order of the recorders stays the same
        i = nest % (len(members) - 1)
        j = i + 2 + (nest // 7) % max(1, len(members) - i - 1)
        group = members[i:j]
        if nest % 2:
            # a subclass with hooks of its own (tag GROUP_TAG): they fire around its members'
            rec = make_instrumentation(log, GROUP_TAG)
            ns = {}
            for h in HOOKS:
                def mk(h):
                    own = getattr(type(rec), h)
                    base = getattr(MultiInstrumentation, h)
                    if h.endswith("_start"):
                        def hook(self, *a):
                            own(rec, *a)
                            return base(self, *a)
                    else:
                        def hook(self, *a):
                            out = base(self, *a)
                            own(rec, *a)
                            return out
                    return hook
                ns[h] = mk(h)
            inner = type("Group", (MultiInstrumentation,), ns)(*group)
        else:
            inner = MultiInstrumentation(*group)
        members[i:j] = [inner]
    return MultiInstrumentation(*members)


def check_partials(events, partials):
    """A member that overrides a hook receives exactly the firings of that hook that a full member
    receives (same stage / edge / path multiset)."""
    problems = []

    def firings(tag):
        out = {}
        for e in events:
            if e["ev"] in ("stage", "field") and e["tag"] == tag:
                hook = "on_%s_%s" % (e["stage"] if e["ev"] == "stage" else "field", e["edge"])
                out.setdefault(hook, []).append(e.get("path"))
        return out

    full = firings(0)
    for tag, hooks, pos in partials:
        mine = firings(tag)
        for h in hooks:
            if sorted(map(repr, mine.get(h, []))) != sorted(map(repr, full.get(h, []))):
                problems.append(("partial-member:%s:firings-differ" % h,
                                 "member overriding %r got %d firings, a full member %d" % (hooks, len(mine.get(h, [])), len(full.get(h, [])))))
        for h in mine:
            if h not in hooks:
                problems.append(("partial-member:%s:unexpected" % h, repr(hooks)))
    return problems


def make_middleware(log, idx):
    def middleware(next_, root, context, info, **kwargs):
        log({"ev": "mw", "idx": idx, "path": tuple(info.path)})
        return next_(root, context, info, **kwargs)

    middleware.__name__ = "middleware_%d" % idx
    return middleware


class EqualMiddleware(object):
    """A middleware object that compares equal to every other instance configured with the same index (value
    objects such as frozen dataclasses do); each instance logs the request it was configured for."""

    def __init__(self, log, idx, run_id):
        self.log, self.idx, self.run_id = log, idx, run_id
        self.__name__ = "equal_middleware_%d" % idx

    def __eq__(self, other):
        return isinstance(other, EqualMiddleware) and other.idx == self.idx

    def __hash__(self):
        return hash(("EqualMiddleware", self.idx))

    def __len__(self):
        # a collecting middleware that has not collected anything yet is falsy; it still is a middleware
        return 0 if self.idx % 2 == 0 else 1

    def __call__(self, next_, root, context, info, /, **kwargs):       # arguments may be called `self`
        self.log({"ev": "mw", "idx": self.idx, "path": tuple(info.path), "run": self.run_id})
        return next_(root, context, info, **kwargs)


def check_stage_grammar(events, n_instr, crashed=False):
    """Returns a list of (key, detail) problems. Looks at instrumentation 0's view for grammar and
    at all of them for the stacking order."""
    problems = []
    events = [e for e in events if e.get("tag", 0) < PARTIAL_TAG]
    view = [e for e in events if e["ev"] == "stage" and e["tag"] == 0]
    seq = [(e["stage"], e["edge"]) for e in view]
    counts = {}
    stack = []
    order = {s: i for i, s in enumerate(STAGES)}
    last_started = -1
    for stage, edge in seq:
        counts[(stage, edge)] = counts.get((stage, edge), 0) + 1
        if counts[(stage, edge)] > 1:
            problems.append(("stage:fired-twice:%s_%s" % (stage, edge), repr(seq)))
        if edge == "start":
            if stage != "query" and (not stack or stack[0] != "query"):
                problems.append(("stage:outside-query:%s" % stage, repr(seq)))
            if stage != "query" and len(stack) != 1:
                problems.append(("stage:not-properly-nested:%s_start" % stage, repr(seq)))
            if order[stage] <= last_started:
                problems.append(("stage:out-of-order:%s" % stage, repr(seq)))
            last_started = max(last_started, order[stage])
            stack.append(stage)
        else:
            if not stack or stack[-1] != stage:
                problems.append(("stage:not-properly-nested:%s_end" % stage, repr(seq)))
                if stage in stack:
                    stack.remove(stage)
            else:
                stack.pop()
    if not crashed:
        for st in stack:
            problems.append(("stage:end-missing:%s" % st, repr(seq)))
        if ("query", "start") not in counts:
            problems.append(("stage:query_start-missing", repr(seq)))
    # stacking: every firing appears as a consecutive group, starts in order, ends reversed
    if n_instr > 1:
        all_stage = [e for e in events if e["ev"] in ("stage", "field")]
        i = 0
        while i < len(all_stage):
            grp = all_stage[i:i + n_instr]
            e0 = grp[0]
            ident = (e0["ev"], e0.get("stage"), e0["edge"], e0.get("path"))
            same = all((g["ev"], g.get("stage"), g["edge"], g.get("path")) == ident for g in grp)
            tags = [g["tag"] for g in grp]
            want = list(range(n_instr)) if e0["edge"] == "start" else list(range(n_instr - 1, -1, -1))
            if len(grp) != n_instr or not same or tags != want:
                # under real threads groups of different fields may interleave: only judge groups
                # observed on one thread
                if len(set(g["thread"] for g in grp)) == 1:
                    problems.append(("stack-order:%s" % e0["edge"], "tags %r for %r" % (tags, ident)))
                break
            i += n_instr
    return problems


def check_fields(events, expected_paths, n_mw, spy_paths=None, crashed=False, no_call_paths=(), aborted=()):
    """Field hooks exactly once per resolved field, start before resolver, end after; middlewares
    traversed exactly once each, last listed outermost."""
    problems = []
    starts, ends = {}, {}
    t_start, t_end = {}, {}
    for e in events:
        if e["ev"] == "field" and e["tag"] == 0:
            d = starts if e["edge"] == "start" else ends
            d[e["path"]] = d.get(e["path"], 0) + 1
            (t_start if e["edge"] == "start" else t_end)[e["path"]] = e["t"]
    # fields below a field that a failing type resolver nulled may or may not have been reached (or
    # finished) when the response was complete: nothing is demanded of them
    aborted = [tuple(a) for a in aborted]

    def below_aborted(p):
        return any(len(p) > len(a) and tuple(p[:len(a)]) == a for a in aborted)

    exp = set(p for p in expected_paths if not below_aborted(p))
    starts = dict((p, c) for p, c in starts.items() if not below_aborted(p))
    ends = dict((p, c) for p, c in ends.items() if not below_aborted(p))
    for p in exp:
        s, en = starts.get(p, 0), ends.get(p, 0)
        if s != 1:
            problems.append(("field:start-count-%d" % s, "path %r" % (list(p),)))
        if not crashed and en != 1:
            problems.append(("field:end-count-%d" % en, "path %r" % (list(p),)))
        if s == 1 and en == 1 and not t_start[p] < t_end[p]:
            problems.append(("field:end-before-start", "path %r" % (list(p),)))
    if not crashed:
        for p in set(starts) - exp:
            problems.append(("field:hook-for-unresolved-field", "path %r" % (list(p),)))
    # resolver spies between start and end
    rs = {}
    for e in events:
        if e["ev"] in ("resolver_start", "resolver_end"):
            rs.setdefault(tuple(e["path"]), {})[e["ev"]] = e["t"]
    for p, d in rs.items():
        if p in t_start and "resolver_start" in d and not t_start[p] < d["resolver_start"]:
            problems.append(("field:start-after-resolver", "path %r" % (list(p),)))
        if p in t_end and "resolver_end" in d and not d["resolver_end"] < t_end[p]:
            problems.append(("field:end-before-resolver-returned", "path %r" % (list(p),)))
    # middlewares
    if n_mw:
        per = {}
        for e in events:
            if e["ev"] == "mw":
                per.setdefault(e["path"], []).append(e["idx"])
        for p in exp:
            # a field whose arguments could not be coerced has no resolver call to pass through them
            want = [] if p in no_call_paths else list(range(n_mw - 1, -1, -1))
            got = per.get(p, [])
            if got != want and not (crashed and len(got) <= n_mw):
                problems.append(("middleware:traversal", "path %r saw %r expected %r" % (list(p), got, want)))
    return problems


def check_serial(events, top_keys):
    """C09: no resolver / field hook under a later top-level key starts before everything under an
    earlier key has finished. Returns (problems, max_overlap)."""
    problems = []
    first_start, last_end = {}, {}
    for e in events:
        p = e.get("path")
        if not p:
            continue
        k = p[0]
        if e["ev"] in ("resolver_start",) or (e["ev"] == "field" and e["edge"] == "start" and e.get("tag") == 0):
            first_start[k] = min(first_start.get(k, e["t"]), e["t"])
        if e["ev"] in ("resolver_end",) or (e["ev"] == "field" and e["edge"] == "end" and e.get("tag") == 0):
            last_end[k] = max(last_end.get(k, e["t"]), e["t"])
    overlap = 0
    for i, ki in enumerate(top_keys):
        for kj in top_keys[i + 1:]:
            if ki in last_end and kj in first_start and first_start[kj] < last_end[ki]:
                overlap += 1
                problems.append(("serial:later-field-started-early", "%r started at t=%d before %r finished at t=%d"
                                 % (kj, first_start[kj], ki, last_end[ki])))
    for k in top_keys:
        if k not in first_start:
            problems.append(("serial:top-level-field-not-run", repr(k)))
    return problems, overlap
