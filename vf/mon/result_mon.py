# -*- coding: utf-8 -*-
"""result_mon: well-formedness of every GraphQLResult returned by the entry points (C10)."""
import json

from .parse_mon import loc_in_text


def _no_constants(name):
    raise ValueError("non-strict JSON constant %s" % name)


def check_response(ctx, result, text, witness, expect_no_data=False, prefix=""):
    """Returns the response dict or None when it could not be produced."""
    try:
        resp = result.response()
    except Exception as e:
        ctx.violation(prefix + "response()-raises:%s" % type(e).__name__, witness, repr(e)[:300])
        return None
    ctx.count("responses_checked")
    try:
        strict = json.dumps(resp, allow_nan=False)
    except (ValueError, TypeError) as e:
        kind = "non-finite-number" if "Out of range float" in str(e) or "nan" in str(e).lower() else type(e).__name__
        ctx.violation(prefix + "not-strict-json:%s" % kind, witness, str(e)[:200])
        return resp
    try:
        text_json = result.json()
        back = json.loads(text_json, parse_constant=_no_constants)
        if back != json.loads(strict):
            ctx.violation(prefix + "json()-differs-from-response()", witness, text_json[:200])
    except Exception as e:
        ctx.violation(prefix + "json()-raises-or-not-strict:%s" % type(e).__name__, witness, repr(e)[:200])
    if not isinstance(resp, dict) or not set(resp) <= {"data", "errors", "extensions"}:
        ctx.violation(prefix + "top-level-keys", witness, repr(list(resp))[:100])
        return resp
    if "errors" in resp:
        errs = resp["errors"]
        if not isinstance(errs, list) or not errs:
            ctx.violation(prefix + "errors-not-a-non-empty-list", witness, repr(errs)[:100])
            return resp
        for e in errs:
            ctx.count("error_entries_checked")
            if not isinstance(e, dict) or not isinstance(e.get("message"), str):
                ctx.violation(prefix + "error-entry:no-string-message", witness, repr(e)[:200])
                continue
            extra = set(e) - {"message", "locations", "path", "extensions"}
            if extra:
                ctx.violation(prefix + "error-entry:unknown-keys", witness, repr(sorted(extra)))
            for loc in e.get("locations", []) or []:
                if not isinstance(loc, dict):
                    ctx.violation(prefix + "location:not-an-object", witness, repr(loc))
                    continue
                if set(loc) != {"line", "column"}:
                    ctx.violation(prefix + "location-key:%s" % "+".join(sorted(set(loc) - {"line"})), witness, repr(loc))
                    line, col = loc.get("line"), loc.get("column", loc.get("columne"))
                else:
                    line, col = loc["line"], loc["column"]
                if not loc_in_text(text, line, col):
                    ctx.violation(prefix + "location:outside-document", witness, "%r for a text of %d lines" % (loc, text.count("\n") + 1))
                else:
                    ctx.count("locations_checked")
            if "locations" in e and not isinstance(e["locations"], list):
                ctx.violation(prefix + "locations:not-a-list", witness, repr(e["locations"])[:100])
            if "path" in e:
                p = e["path"]
                if not isinstance(p, list) or not all(isinstance(x, str) or (isinstance(x, int) and not isinstance(x, bool)) for x in p):
                    ctx.violation(prefix + "path:malformed", witness, repr(p)[:100])
            if "extensions" in e and not isinstance(e["extensions"], dict):
                ctx.violation(prefix + "extensions:not-an-object", witness, repr(e["extensions"])[:100])
    # what the response says about an error is what the error object holds when the response is made: a field error
    # that carries a path and located nodes is rendered with that path and with locations
    objs = list(getattr(result, "errors", None) or [])
    if "errors" in resp and isinstance(resp["errors"], list) and len(objs) == len(resp["errors"]):
        for obj, e in zip(objs, resp["errors"]):
            if not isinstance(e, dict):
                continue
            path = getattr(obj, "path", None)
            if path is not None:
                ctx.count("error_entries_compared_with_error_objects")
                if e.get("path") != list(path):
                    ctx.violation(prefix + "error-entry:path-differs-from-the-error-object", witness,
                                  "entry %r, error object path %r" % (e, list(path)))
                nodes = [n for n in (getattr(obj, "nodes", None) or []) if getattr(n, "loc", None) and getattr(n, "source", None)]
                if nodes and not e.get("locations"):
                    ctx.violation(prefix + "error-entry:locations-missing-although-the-error-object-has-located-nodes", witness, repr(e)[:200])
    if expect_no_data and "data" in resp:
        ctx.violation(prefix + "data-present-after-parse-or-validation-failure", witness, repr(resp.get("data"))[:100])
    return resp
