# -*- coding: utf-8 -*-
"""
Shared harness for the execution properties: builds (schema IR, py_gql schema, world,
binding) cases, issues requests through the public entry points under a chosen
configuration and normalises what came back.
"""
import collections

from ..gen import opgen, schemair as S
from ..gen.world import Binding, World
from ..ref import refexec


class Case(object):
    """One generated schema with its world, bound to a py_gql Schema object."""

    def __init__(self, rng, seed_key, world_kw=None, schema_kw=None, log=None, wrap=None, served=None, mode="code"):
        kw = dict(schema_kw or {})
        kw["features"] = dict(kw.get("features") or {}, impl_variants=True)
        self.ir = S.generate(rng, **kw)
        self.mode = mode
        if mode == "sdl":
            from ..ref import canon

            # what SDL can carry: enum values are their names, scalars transparent, no python names
            self.ir = canon.sdl_view(self.ir)
        self.world = World(self.ir, seed_key, served=served, **(world_kw or {}))
        self.binding = Binding(self.world, log=log, wrap=wrap)
        if mode == "sdl":
            import py_gql

            text = S.to_sdl(self.ir, rng, split_extensions=True, shuffle=True,
                            split_kinds=("object", "interface", "union"))[0]
            self.schema = py_gql.build_schema(text)
            self.built = dict(self.schema.types)
            # resolvers registered through the public ResolverMap API of the schema
            for t in self.ir.types.values():
                if t.kind == "object":
                    for f in t.fields:
                        fn = self.binding.resolver_for(t.name, f.name)
                        if fn is not None:
                            self.schema.register_resolver(t.name, f.name, fn)
                elif t.kind in ("interface", "union"):
                    fn = self.binding.type_resolver_for(t.name)
                    if fn is not None:
                        self.schema.types[t.name].resolve_type = fn
        else:
            self.schema, self.built = S.build_code_schema(
                self.ir,
                resolver_for=self.binding.resolver_for,
                type_resolver_for=self.binding.type_resolver_for,
            )
        self.sg = S.SchemaGen(rng)
        self.sg.s = self.ir

    def root_for(self, op):
        return self.binding.root_value(dict(self.ir.roots())[op.kind])


def gen_request(rng, case, **opkw):
    """(doc IR, text, op, variables)"""
    g = opgen.OpGen(rng, case.ir, **opkw)
    doc = g.document()
    text = opgen.document_text(doc, rng if rng.random() < 0.5 else None)
    op = rng.choice(doc.operations)
    variables = opgen.variable_values(rng, case.sg, op, nested=doc.nested_vars)
    return doc, text, op, variables


def run_blocking(case, text, op, variables, executor="blocking", **kw):
    import py_gql
    from py_gql.execution import Executor

    case.binding.calls = []
    root = case.root_for(op)
    if executor == "blocking":
        return py_gql.graphql_blocking(case.schema, text, variables=variables, operation_name=op.name,
                                       root=root, **kw)
    if executor == "threadpool":
        # a real pool; resolvers written earlier in the document take longer, so that completion order and
        # document order disagree as often as possible
        import time
        from py_gql.execution.runtime import ThreadPoolRuntime

        base_finish = case.binding._finish
        started = [0]

        def slow_finish(obj, f, kwargs, info):
            started[0] += 1
            time.sleep(max(0.0, 0.004 - 0.0005 * started[0]))
            return base_finish(obj, f, kwargs, info)

        rt = ThreadPoolRuntime(max_workers=4)
        case.binding._finish = slow_finish
        try:
            return py_gql.process_graphql_query(case.schema, text, variables=variables, operation_name=op.name, root=root,
                                                executor_cls=Executor, runtime=rt, **kw).result(timeout=120)
        finally:
            case.binding._finish = base_finish
            rt._inner.shutdown(wait=True)
    return py_gql.process_graphql_query(case.schema, text, variables=variables, operation_name=op.name,
                                        root=root, executor_cls=Executor, **kw)


def error_paths(result):
    out = []
    for e in result.errors:
        p = getattr(e, "path", None)
        out.append(tuple(p) if p is not None else None)
    return sorted(out, key=repr)


def check_against_reference(ctx, case, doc, text, op, variables, result, ref, witness, prefix=""):
    """Compare one GraphQLResult with the reference outcome. Returns True when compared."""
    if ref[0] == "abstain":
        ctx.abstain(ref[1])
        return False
    if ref[0] == "reject-variables":
        ctx.count("ref:reject-variables")
        if not result.errors or result.data is not None or case.binding.calls:
            ctx.violation(prefix + "variables:invalid-values-accepted", witness,
                          "model rejects (%s); errors=%d data=%r resolver calls=%d"
                          % (ref[1], len(result.errors), result.data, len(case.binding.calls)))
        return True
    if ref[0] == "crash":
        return False
    _, data, errors, ex = ref
    ctx.count("ref:ok")
    if not isinstance(result.data, dict):
        ctx.violation(prefix + "data:missing", witness, "data=%r errors=%r" % (result.data, [str(e) for e in result.errors][:3]))
        return True
    d = refexec.compare_data(result.data, data)
    if d:
        path, a, b = d
        kind = "data:keys-or-order" if isinstance(a, str) and a.startswith("keys") else \
            "data:list-length" if isinstance(a, str) and a.startswith("len") else "data:value"
        ctx.violation(prefix + kind, witness, "at %r library=%r model=%r" % (list(path), a, b))
        return True
    want = refexec.drop_under_aborted(sorted([p for p, _k in errors], key=repr), ref[3])
    got = refexec.drop_under_aborted(error_paths(result), ref[3])
    if want != got:
        ctx.violation(prefix + "errors:paths-differ", witness, "library=%r model=%r" % (got[:6], want[:6]))
        return True
    for e in result.errors:
        nodes = getattr(e, "nodes", None) or []
        path = getattr(e, "path", None)
        if path:
            key = [p for p in path if isinstance(p, str)][-1]
            if not nodes or getattr(nodes[0], "response_name", None) != key:
                ctx.violation(prefix + "errors:location-not-the-field", witness, "path=%r nodes=%r" % (path, nodes[:1]))
                return True
        try:
            dd = e.to_dict()
            assert isinstance(dd["message"], str)
        except Exception as ex2:
            ctx.violation(prefix + "errors:to_dict-raises-%s" % type(ex2).__name__, witness, repr(ex2))
            return True
    return True


# ---------------------------------------------------------------------------
# dual (sync / coroutine) cases and one entry point for all six configurations
# ---------------------------------------------------------------------------

CONFIGS = ["blocking", "generic", "threadpool", "asyncio-coroutines", "asyncio-executor", "asyncio-mixed"]
DEFERRED = CONFIGS[2:]


class DualCase(object):
    """Same IR and world bound twice: synchronous resolvers (blocking / thread pool / asyncio
    executor) and a mix of coroutine resolvers behind gates (asyncio)."""

    def __init__(self, rng, key, log=None, world_kw=None, schema_kw=None, served=None):
        import random

        kw = dict(schema_kw or {"size": rng.choice([1, 2, 2, 3])})
        kw["features"] = dict(kw.get("features") or {}, impl_variants=True)
        self.ir = S.generate(rng, **kw)
        self.world = World(self.ir, key, served=served, **(world_kw or {}))
        self.sync = Binding(self.world, log=log)
        self.asyn = Binding(self.world, log=log)
        r = random.Random("async:%s" % key)
        for t in self.ir.types.values():
            if t.kind == "object" and self.world.served_by(t.name) == "resolver":
                for f in t.fields:
                    if r.random() < 0.6:
                        self.asyn.async_fields.add((t.name, f.name))
                    if r.random() < 0.2:
                        # resolvers that pass their work on to runtime.submit() and return what they get
                        self.asyn.submit_fields.add((t.name, f.name))
                        self.sync.submit_fields.add((t.name, f.name))
        self.schema_sync, _ = S.build_code_schema(self.ir, resolver_for=self.sync.resolver_for,
                                                  type_resolver_for=self.sync.type_resolver_for)
        self.schema_async, _ = S.build_code_schema(self.ir, resolver_for=self.asyn.resolver_for,
                                                   type_resolver_for=self.asyn.type_resolver_for)
        self.sg = S.SchemaGen(rng)
        self.sg.s = self.ir
        self.sdl = S.to_sdl(self.ir)[0]


def run_request(config, case, text, op, variables, chooser=None, extra=None, eager=False):
    """One execution under one configuration (and, for deferred ones, one schedule).
    Returns (outcome, trace)."""
    import py_gql
    from py_gql.execution import Executor

    from . import sched

    kw = dict(extra() if callable(extra) else (extra or {}))
    kw.update({"variables": variables, "operation_name": op.name if op is not None else None})
    root_type = dict(case.ir.roots())[op.kind] if op is not None else case.ir.query
    if config in ("blocking", "generic"):
        kw["root"] = case.sync.root_value(root_type)
        try:
            if config == "blocking":
                res = py_gql.graphql_blocking(case.schema_sync, text, **kw)
            else:
                res = py_gql.process_graphql_query(case.schema_sync, text, executor_cls=Executor, **kw)
            return sched.normalise(res), []
        except Exception as e:
            return ("raised", e), []
    if config == "threadpool":
        kw["root"] = case.sync.root_value(root_type)
        return sched.run_threadpool(chooser, case.schema_sync, text, kw, eager=eager)
    in_thread = config != "asyncio-coroutines"
    binding = case.sync if config == "asyncio-executor" else case.asyn
    schema = case.schema_sync if config == "asyncio-executor" else case.schema_async
    kw["root"] = binding.root_value(root_type)

    def setg(g):
        binding.gates = g

    return sched.run_asyncio(chooser, schema, text, kw, in_thread, setg, eager=eager)


def schedules(config, rng, run_with, max_exh, n_samples, eager_run_with=None):
    """Yields (schedule, (outcome, trace), exhaustive?) for one configuration. ``eager_run_with``
    (same signature) runs a second, smaller exploration in which every pool submission may already
    be finished when submit() returns."""
    from . import sched

    if config not in DEFERRED:
        yield [], run_with(None), True
        return
    for item in sched.explore(run_with, max_exh, n_samples, rng):
        yield item
    if eager_run_with is not None and config != "asyncio-coroutines":
        for item in sched.explore(eager_run_with, max(4, max_exh // 2), max(2, n_samples // 2), rng):
            yield item
