# -*- coding: utf-8 -*-
"""
parse_mon: observes every call the workloads make to the library's three
parsing entry points and decides it against R-LANG (C01: language acceptance
and error discipline; C02: tree, decoded values and spans).
"""
import itertools
import re
import sys

from ..core import h64
from ..gen import docgen, lexgen, mutate
from ..ref import reflang

FLAG_SETS = {
    "document": [
        {}, {"no_location": True}, {"allow_type_system": True},
        {"experimental_fragment_variables": True},
        {"allow_type_system": True, "experimental_fragment_variables": True},
        {"allow_type_system": True, "no_location": True},
        {"no_location": True, "experimental_fragment_variables": True},
        {"allow_type_system": True, "no_location": True, "experimental_fragment_variables": True},
    ],
    "value": [{}, {"no_location": True}],
    "type": [{}, {"no_location": True}],
}


def lib_entries():
    from py_gql.lang import parser as P

    return {"document": P.parse, "value": P.parse_value, "type": P.parse_type}


def normalize(d):
    if isinstance(d, dict):
        return {k: normalize(v) for k, v in d.items()}
    if isinstance(d, (list, tuple)):
        return [normalize(x) for x in d]
    return d


def first_diff(a, b, path="", parent=None):
    """First structural difference: (path, parent_kind, attr, a, b) or None."""
    if type(a) != type(b):
        return (path, parent, a, b)
    if isinstance(a, dict):
        kind = a.get("__kind__", parent)
        keys = sorted(set(a) | set(b))
        # compare kind first
        for k in (["__kind__"] if "__kind__" in keys else []) + [k for k in keys if k != "__kind__"]:
            if k not in a or k not in b:
                return (path + "/" + k, kind, a.get(k, "<missing>"), b.get(k, "<missing>"))
            r = first_diff(a[k], b[k], path + "/" + k, kind)
            if r:
                return r
        return None
    if isinstance(a, list):
        if len(a) != len(b):
            return (path + "/len", parent, len(a), len(b))
        for i, (x, y) in enumerate(zip(a, b)):
            r = first_diff(x, y, path + "/%d" % i, parent)
            if r:
                return r
        return None
    return None if a == b else (path, parent, a, b)


def loc_in_text(text, line, col):
    """Is (line, col) inside text under the library's LF-only convention or the
    specification's LF|CR|CRLF line terminators (the property picks neither)?"""
    if not (isinstance(line, int) and isinstance(col, int)) or isinstance(line, bool):
        return False
    if line < 1 or col < 1:
        return False
    for splitter in (lambda t: t.split("\n"), lambda t: re.split(r"\r\n|\n|\r", t)):
        lines = splitter(text)
        if line <= len(lines) and col <= len(lines[line - 1]) + 1:
            return True
    return False


_NONASCII_DIGIT = None


def has_nonascii_digit(text):
    return any(c.isdigit() and c not in "0123456789" for c in text)


def has_nonascii_alnum_in_escape(text):
    for m in re.finditer(r"\\u(.{0,4})", text, re.S):
        if any(ord(c) > 127 and c.isalnum() for c in m.group(1)):
            return True
    return False


def classify_accept_mismatch(text, entry, lib, ref, refmsg):
    """Mechanism key (never a hash) for an accept/reject disagreement."""
    if lib == "accept":
        # library more permissive than the grammar
        if has_nonascii_alnum_in_escape(text):
            return "accept-mismatch:non-hex-unicode-escape-accepted"
        if has_nonascii_digit(text):
            return "accept-mismatch:non-ascii-digit-accepted"
        toks = None
        try:
            toks = reflang.lex(text)
        except reflang.RefSyntaxError:
            pass
        if toks is not None:
            for t in toks:
                if t.kind in ("String", "BlockString") and t.value in mutate.KEYWORD_STRINGS and refmsg is not None and t.start == refmsg:
                    return "accept-mismatch:string-token-as-keyword"
        return "accept-mismatch:lib-accepts"
    if re.search(r"[eE][+-]?0[0-9]", text):
        return "accept-mismatch:exponent-leading-zero-rejected"
    return "accept-mismatch:lib-rejects"


class ParseMonitor:
    def __init__(self, ctx, check_trees=False, check_errors=True, prop=None):
        self.ctx = ctx
        self.entries = lib_entries()
        self.check_trees = check_trees
        self.check_errors = check_errors
        from py_gql.exc import GraphQLSyntaxError

        self.SyntaxError = GraphQLSyntaxError
        self.ref_msgs = {}

    def call_lib(self, entry, source, flags):
        try:
            tree = self.entries[entry](source, **flags)
            return ("accept", tree)
        except self.SyntaxError as e:
            return ("reject", e)
        except RecursionError as e:
            return ("recursion", e)
        except Exception as e:  # noqa
            return ("crash", e)

    def call_ref(self, entry, text, flags):
        try:
            p = reflang.RefParser(text, **flags)
            if entry == "document":
                return ("accept", p.parse_document(), None)
            if entry == "value":
                return ("accept", p.parse_value_entry(), None)
            return ("accept", p.parse_type_entry(), None)
        except reflang.RefSyntaxError as e:
            return ("reject", e.pos, str(e))
        except reflang.Abstain as e:
            return ("abstain", str(e), None)
        except RecursionError:
            return ("abstain", "recursion in model", None)

    def observe(self, entry, text, flags, cls, as_bytes=False, valid_by_construction=False):
        """One monitored parse call. Returns (lib_outcome, ref_outcome, lib_tree)."""
        ctx = self.ctx
        source = text
        if as_bytes:
            try:
                source = text.encode("utf8")
            except UnicodeEncodeError:
                as_bytes = False
        witness = {"entry": entry, "text": text, "flags": flags, "bytes": as_bytes, "class": cls}
        lib = self.call_lib(entry, source, flags)
        ref = self.call_ref(entry, text, flags)
        ctx.evaluated()
        ctx.count("calls:" + entry)
        ctx.count("class:" + cls)

        if valid_by_construction and ref[0] == "reject":
            # the generator and the model disagree: harness defect, not a verdict
            ctx.mark_inconclusive("model rejects generated text %r (%s)" % (text[:200], ref[2]))
            return lib[0], ref[0], None

        if ref[0] == "abstain":
            ctx.abstain(ref[1])
        if lib[0] == "crash":
            e = lib[1]
            ctx.violation("non-syntax-error:%s" % type(e).__name__, witness, repr(e))
            return lib[0], ref[0], None
        if lib[0] == "recursion":
            if ref[0] == "abstain":
                ctx.observe("recursion-error-on-deep-nesting")
            else:
                ctx.violation("non-syntax-error:RecursionError", witness, "RecursionError")
            return lib[0], ref[0], None

        ctx.count("outcome:%s/%s" % (lib[0], ref[0]))
        if ref[0] != "abstain" and lib[0] != ref[0]:
            if self.check_errors:
                key = classify_accept_mismatch(text, entry, lib[0], ref[0], ref[1] if ref[0] == "reject" else None)
                detail = "library=%s model=%s %s" % (
                    lib[0], ref[0], ref[2] if ref[0] == "reject" else self._errstr(lib[1]))
                ctx.violation(key, witness, detail)
            return lib[0], ref[0], (lib[1] if lib[0] == "accept" else None)

        if lib[0] == "reject" and self.check_errors:
            self.check_error(lib[1], text, witness)
        if lib[0] == "accept" and ref[0] == "accept" and self.check_trees:
            self.check_tree(lib[1], ref[1], text, flags, witness)
        return lib[0], ref[0], (lib[1] if lib[0] == "accept" else None)

    @staticmethod
    def _errstr(e):
        try:
            return "%s: %s" % (type(e).__name__, getattr(e, "message", ""))
        except Exception:
            return type(e).__name__

    def check_error(self, e, text, witness):
        ctx = self.ctx
        ctx.count("errors_checked")
        ctx.count("error_class:" + type(e).__name__)
        pos = getattr(e, "position", None)
        src = getattr(e, "source", None)
        if not isinstance(src, str) or src != text:
            ctx.violation("error-source:not-the-submitted-text", witness, repr(src)[:200])
            return
        if not isinstance(pos, int) or isinstance(pos, bool) or pos < 0 or pos > len(text):
            key = "error-position:outside-text"
            if (type(e).__name__ == "NonTerminatedString" and pos == len(text) + 1
                    and re.search(r"\\(u[0-9a-fA-F]{0,3})?$", text)):
                # pinned by tests/test_lang/test_lexer.py::test_useful_string_errors
                key = "error-position:truncated-escape-at-eof"
            ctx.violation(key, witness,
                          "%s position=%r len=%d" % (type(e).__name__, pos, len(text)))
        try:
            msg = str(e)
            hl = e.highlighted
            if not isinstance(msg, str) or not isinstance(hl, str) or not msg:
                ctx.violation("error-render:not-a-string", witness, repr(msg)[:100])
        except Exception as ex:
            ctx.violation("error-render:str-raises-%s" % type(ex).__name__, witness,
                          "%s position=%r len=%d" % (type(e).__name__, pos, len(text)))
            return
        try:
            d = e.to_dict()
        except Exception as ex:
            ctx.violation("error-render:to_dict-raises-%s" % type(ex).__name__, witness, repr(ex))
            return
        ok = isinstance(d, dict) and isinstance(d.get("message"), str) and isinstance(d.get("locations"), list)
        if ok:
            for loc in d["locations"]:
                if not isinstance(loc, dict) or not isinstance(loc.get("line"), int):
                    ok = False
                    break
                col = loc.get("column", loc.get("columne"))
                if not loc_in_text(text, loc["line"], col):
                    ctx.violation("error-render:location-outside-text", witness, repr(loc))
        if not ok:
            ctx.violation("error-render:malformed-dict", witness, repr(d)[:300])

    # -- C02 --------------------------------------------------------------
    def check_tree(self, tree, ref_tree, text, flags, witness):
        ctx = self.ctx
        ctx.count("trees_compared")
        got = normalize(tree.to_dict())
        exp = normalize(ref_tree)
        ctx.count("nodes_compared", count_nodes(exp))
        for k in kinds_of(exp):
            ctx.count("kind:" + k)
        if got != exp:
            d = first_diff(got, exp)
            path, parent, a, b = d
            attr = path.rsplit("/", 1)[-1]
            if attr.isdigit() or attr == "len":
                attr = path.rsplit("/", 2)[-2] + "[]"
            key = "tree:%s.%s" % (parent, attr)
            if parent == "StringValue" and attr == "value":
                key += ":block" if '"""' in text else ":quoted"
            ctx.violation(key, witness, "at %s library=%r model=%r" % (path, a, b))
            return False
        if not flags.get("no_location"):
            self.check_spans(tree, text, flags, witness)
        return True

    def check_spans(self, tree, text, flags, witness):
        """source[start:end] parses back (with the library) to an equal node."""
        from py_gql.lang import ast as A

        ctx = self.ctx
        entries = self.entries
        budget = 12
        for node in walk_nodes(tree):
            if budget <= 0:
                break
            loc = getattr(node, "loc", None)
            if loc is None:
                ctx.violation("span:missing", witness, type(node).__name__)
                return
            start, end = loc
            if not (0 <= start <= end <= len(text)):
                ctx.violation("span:outside-text", witness, "%s %r" % (type(node).__name__, loc))
                return
            sub = text[start:end]
            if isinstance(node, (A.Value, A.Variable)):
                entry, kw = "value", {}
            elif isinstance(node, A.Type):
                entry, kw = "type", {}
            elif isinstance(node, A.Definition):
                entry, kw = "document", {k: v for k, v in flags.items() if k != "no_location"}
            else:
                continue
            budget -= 1
            ctx.count("spans_reparsed")
            try:
                again = entries[entry](sub, **kw)
            except Exception as ex:
                ctx.violation("span:text-does-not-reparse:%s" % type(node).__name__, witness,
                              "span %r text %r -> %r" % (loc, sub[:80], ex))
                continue
            if entry == "document":
                if len(again.definitions) != 1:
                    ctx.violation("span:reparse-differs:%s" % type(node).__name__, witness, sub[:80])
                    continue
                again = again.definitions[0]
            a = shift_locs(normalize(again.to_dict()), start)
            b = normalize(node.to_dict())
            if a != b:
                d = first_diff(a, b)
                ctx.violation("span:reparse-differs:%s" % type(node).__name__, witness,
                              "span %r text %r diff %r" % (loc, sub[:80], d))


def shift_locs(d, off):
    if isinstance(d, dict):
        out = {}
        for k, v in d.items():
            if k == "loc" and isinstance(v, list):
                out[k] = [v[0] + off, v[1] + off]
            else:
                out[k] = shift_locs(v, off)
        return out
    if isinstance(d, list):
        return [shift_locs(x, off) for x in d]
    return d


def count_nodes(d):
    if isinstance(d, dict):
        return (1 if "__kind__" in d else 0) + sum(count_nodes(v) for v in d.values())
    if isinstance(d, list):
        return sum(count_nodes(v) for v in d)
    return 0


def kinds_of(d, acc=None):
    if acc is None:
        acc = set()
    if isinstance(d, dict):
        if "__kind__" in d:
            acc.add(d["__kind__"])
        for v in d.values():
            kinds_of(v, acc)
    elif isinstance(d, list):
        for v in d:
            kinds_of(v, acc)
    return acc


def walk_nodes(node):
    from py_gql.lang import ast as A

    stack = [node]
    while stack:
        n = stack.pop()
        if isinstance(n, A.Node):
            yield n
            for attr in n._props():
                stack.append(getattr(n, attr))
        elif isinstance(n, list):
            stack.extend(n)


# ---------------------------------------------------------------------------
# workload shared by C01 / C02
# ---------------------------------------------------------------------------

START_ENTRY = {"executable": "document", "typesystem": "document", "value": "value", "type": "type"}


def natural_flags(rng, start, fragvars):
    f = {}
    if start == "typesystem":
        f["allow_type_system"] = True
    if fragvars:
        f["experimental_fragment_variables"] = True
    if rng.random() < 0.2:
        f["no_location"] = True
    return f


def fixtures():
    import glob
    import os

    from .. import REPO

    out = []
    for f in sorted(glob.glob(os.path.join(REPO, "tests", "fixtures", "*.graphql"))):
        with open(f, encoding="utf8") as fh:
            out.append((os.path.basename(f), fh.read()))
    return out


def lang_workload(ctx, n_docs, n_seq, seq_len, hostile=True, mutants=True):
    """Yields (entry, text, flags, cls, as_bytes, valid_by_construction)."""
    # 1. fixed hostile lexical corpus in several syntactic contexts (shard 0 only does all;
    #    other shards a rotating slice)
    corpus = mutate.HOSTILE_LEXICAL
    contexts = [
        ("value", "%s", {}), ("value", "[%s]", {}), ("value", "{a: %s}", {}),
        ("document", "{ a(x: %s) }", {}), ("document", "query ($v: T = %s) { a }", {}),
        ("document", "{ %s }", {}), ("document", "%s", {"allow_type_system": True}),
        ("document", "type A { f(a: T = %s): T }", {"allow_type_system": True}),
        ("document", "%s type A", {"allow_type_system": True}),
        ("type", "%s", {}), ("type", "[%s]!", {}),
        ("document", "{ a } # %s", {}), ("document", "{ a @d(x: %s) ... on T { b } }", {}),
    ]
    if hostile:
        for idx, item in enumerate(corpus):
            if idx % ctx.nshards != ctx.shard % ctx.nshards and ctx.nshards > 1:
                continue
            for entry, tmpl, flags in contexts:
                text = tmpl % item if "%s" in tmpl else tmpl
                yield entry, text, flags, "hostile-lexical", False, False
                if entry == "document" and tmpl != "%s":
                    for p in (text[: len(text) - 1], text[: text.find(item) + max(1, len(item) // 2)] if item in text else text):
                        yield entry, p, flags, "hostile-lexical-truncated", False, False
        # every truncation of every escape form inside each string context
        for s in ['"\\u0041\\n\\"\\\\ x"', '"""a\\"""b"""', '"\\uD83D\\uDE00"']:
            for cut in range(len(s) + 1):
                for entry, tmpl, flags in contexts[:5]:
                    yield entry, tmpl % s[:cut], flags, "escape-truncation", cut % 2 == 0, False

    # 2. repository fixtures, every flag set, plus prefixes of them
    if ctx.shard == 0:
        for fname, src in fixtures():
            for flags in FLAG_SETS["document"]:
                yield "document", src, flags, "fixture", False, False
            for p in mutate.prefixes(src, 150):
                yield "document", p, {"allow_type_system": True}, "fixture-prefix", False, False

    # 3. grammar-directed derivations + mutants
    rng = ctx.rng("docs")
    for i in range(n_docs):
        start = rng.choice(["executable", "executable", "typesystem", "typesystem", "value", "type"])
        fragvars = start != "value" and start != "type" and rng.random() < 0.3
        toks, feats = docgen.gen_tokens(rng, start, fragment_variables=fragvars)
        text = lexgen.render(rng, toks)
        entry = START_ENTRY[start]
        flags = natural_flags(rng, start, fragvars) if entry == "document" else (
            {"no_location": True} if rng.random() < 0.2 else {})
        yield entry, text, flags, "derivation:" + start, rng.random() < 0.15, True
        # same text under a different flag set (R-LANG decides)
        other = rng.choice(FLAG_SETS[entry])
        if other != flags:
            yield entry, text, other, "derivation-other-flags", False, False
        # wrong entry point
        if rng.random() < 0.1:
            yield rng.choice(["document", "value", "type"]), text, {}, "wrong-entry", False, False
        # the same kind of derivation with one variable in a const position (labelled invalid)
        if start in ("executable", "typesystem") and rng.random() < 0.3:
            ctoks, cfeats = docgen.gen_tokens(rng, start, fragment_variables=fragvars, const_violation=True)
            if "const-violation" in cfeats:
                yield entry, lexgen.render(rng, ctoks), flags, "variable-in-const-position", False, False
        # ... and with one reserved word in a name position (labelled invalid)
        if start in ("executable", "typesystem") and rng.random() < 0.3:
            rtoks, rfeats = docgen.gen_tokens(rng, start, fragment_variables=fragvars, reserved_violation=True)
            if "reserved-violation" in rfeats:
                yield entry, lexgen.render(rng, rtoks), flags, "reserved-word-in-name-position", False, False
        if not mutants:
            continue
        for op, mt in mutate.token_mutants(rng, toks, 4):
            yield entry, lexgen.render(rng, mt, rng.choice(["min", "space", "wild"])), flags, "token-mutant:" + op, False, False
        for op, mt in mutate.char_mutants(rng, text, 3):
            yield entry, mt, flags, "char-mutant:" + op, rng.random() < 0.1, False
        if i % 10 == 0:
            for p in mutate.prefixes(text, 60):
                yield entry, p, flags, "prefix", False, False

    # 4. small-scope token sequences: exhaustive slice per shard + random longer ones
    rng2 = ctx.rng("seq")
    for start in ("executable", "typesystem", "value", "type"):
        entry = START_ENTRY[start]
        flags = {"allow_type_system": True} if start == "typesystem" else {}
        k = 0
        for seq in mutate.token_sequences(start, seq_len):
            k += 1
            if k % ctx.nshards != ctx.shard % ctx.nshards:
                continue
            if k // ctx.nshards > n_seq:
                break
            yield entry, " ".join(seq), flags, "token-seq-exhaustive:" + start, False, False
        for _ in range(n_seq // 4):
            seq = mutate.sample_token_sequence(rng2, start, rng2.randint(seq_len + 1, seq_len + 5))
            yield entry, " ".join(seq), flags, "token-seq-random:" + start, False, False


def nontrivial_c01(text, cls):
    if cls.startswith("hostile") or cls.startswith("escape"):
        return True
    try:
        return len(reflang.lex(text)) - 1 >= 3
    except reflang.RefSyntaxError:
        return len(text.split()) >= 3 or len(text) >= 6
