# -*- coding: utf-8 -*-
"""
R-COERCE: executable model of June-2018 input coercion over the schema IR.

Values in "literal" form are IR values: None, bool, int, float, str,
EnumLit(name), list, dict (ordered), and ("var", name) markers for variables.
Values in "json" form are plain JSON values (enum names are strings).

Every function returns (status, value) with status in
  "ok"       value is the python value the library must hand out
  "reject"   the specification rejects the input (value = reason)
  "lenient"  the specification rejects or is silent, but the library's built-in
             scalars deliberately accept a wider lexical space (bool(x), str(x),
             int("3")); the monitor abstains (never flagged either way)
"""
import math
import collections

from ..gen.schemair import BUILTIN_SCALARS, UNSET, EnumLit

MAX_INT = 2147483647
MIN_INT = -2147483648


class Var(object):
    __slots__ = ("name",)

    def __init__(self, name):
        self.name = name

    def __repr__(self):
        return "$" + self.name

    def __eq__(self, o):
        return isinstance(o, Var) and o.name == self.name

    def __hash__(self):
        return hash(("Var", self.name))


def _scalar_literal(s, name, v):
    """Literal (AST) route for scalars. v is never None / Var here."""
    if isinstance(v, (list, dict, EnumLit)):
        if name in ("Int", "Float", "String", "Boolean", "ID") or s.types[name].strict:
            return ("reject", "%s literal of wrong kind" % name)
        return ("lenient", None)
    is_bool = isinstance(v, bool)
    is_int = isinstance(v, int) and not is_bool
    is_float = isinstance(v, float)
    is_str = isinstance(v, str)
    if name == "Int":
        if not is_int:
            return ("reject", "Int literal must be an IntValue")
        if not (MIN_INT <= v <= MAX_INT):
            return ("reject", "Int out of 32-bit range")
        return ("ok", v)
    if name == "Float":
        if is_int or is_float:
            try:
                if not math.isfinite(float(v)):
                    return ("reject", "Float literal is not finite")
            except OverflowError:
                return ("reject", "Float literal is not finite")
            return ("ok", float(v))
        return ("reject", "Float literal must be numeric")
    if name == "String":
        return ("ok", v) if is_str else ("reject", "String literal must be a StringValue")
    if name == "Boolean":
        return ("ok", v) if is_bool else ("reject", "Boolean literal must be a BooleanValue")
    if name == "ID":
        if is_str:
            return ("ok", v)
        if is_int:
            return ("ok", str(v))
        return ("reject", "ID literal must be string or int")
    st = s.types[name]
    if st.strict:
        if is_str and v.startswith(name + ":"):
            return ("ok", ("scalar", name, v[len(name) + 1:]))
        return ("reject", "strict scalar")
    if is_str or is_bool:
        # transparent scalars hand the literal's value on: a string or a boolean stays what it is
        return ("ok", v)
    return ("lenient", None)


def _scalar_json(s, name, v):
    """Variable (JSON) route for scalars. v is not None."""
    is_bool = isinstance(v, bool)
    is_int = isinstance(v, int) and not is_bool
    is_float = isinstance(v, float)
    is_str = isinstance(v, str)
    structured = isinstance(v, (list, dict))
    if name == "Int":
        if is_int:
            if MIN_INT <= v <= MAX_INT:
                return ("ok", v)
            return ("reject", "Int out of 32-bit range")
        if structured:
            return ("reject", "structure for Int")
        if is_float:
            if v != v or v in (float("inf"), float("-inf")):
                return ("reject", "non finite")
            if v != int(v):
                return ("reject", "fractional float for Int")
            return ("lenient", None)
        if is_str:
            try:
                float(v)
            except ValueError:
                return ("reject", "non-numeric string for Int")
            return ("lenient", None)
        return ("lenient", None)  # bool
    if name == "Float":
        if (is_int or is_float):
            try:
                if not math.isfinite(float(v)):
                    return ("reject", "Float is not finite")
            except OverflowError:
                return ("reject", "Float is not finite")
            return ("ok", float(v))
        if structured:
            return ("reject", "structure for Float")
        if is_str:
            try:
                if not math.isfinite(float(v)):
                    return ("reject", "non-finite string for Float")
            except ValueError:
                return ("reject", "non-numeric string for Float")
        return ("lenient", None)
    if name == "String":
        if is_str:
            return ("ok", v)
        if isinstance(v, list):
            return ("reject", "list for String")
        return ("lenient", None)
    if name == "Boolean":
        return ("ok", v) if is_bool else ("lenient", None)
    if name == "ID":
        if is_str:
            return ("ok", v)
        if is_int:
            return ("ok", str(v))
        return ("lenient", None)
    st = s.types[name]
    if st.strict:
        if is_str and v.startswith(name + ":"):
            return ("ok", ("scalar", name, v[len(name) + 1:]))
        return ("reject", "strict scalar")
    if is_str or is_bool:
        return ("ok", v)
    return ("lenient", None)


def _merge(statuses):
    if any(st == "reject" for st in statuses):
        return "reject"
    if any(st == "lenient" for st in statuses):
        return "lenient"
    return "ok"


def _reason(results, status):
    for r in results:
        if r[0] == status:
            return r[1]
    return status


def coerce_literal(s, t, v, variables=None):
    """Literal route (AST values, possibly with nested Var markers; `variables` holds the
    already coerced variable values)."""
    variables = variables or {}
    if isinstance(v, Var):
        if v.name not in variables:
            return ("lenient", None)  # nested unprovided variable: outside the explored space
        val = variables[v.name]
        if t[0] == "nonnull" and val is None:
            return ("reject", "null variable in non-null position")
        return ("ok", val)
    if t[0] == "nonnull":
        if v is None:
            return ("reject", "null for non-null")
        return coerce_literal(s, t[1], v, variables)
    if v is None:
        return ("ok", None)
    if t[0] == "list":
        items = v if isinstance(v, list) else [v]
        res = [coerce_literal(s, t[1], x, variables) for x in items]
        st = _merge([r[0] for r in res])
        if st != "ok":
            return (st, _reason(res, st))
        return ("ok", [r[1] for r in res])
    name = t[1]
    if name in BUILTIN_SCALARS or s.types[name].kind == "scalar":
        return _scalar_literal(s, name, v)
    st = s.types[name]
    if st.kind == "enum":
        if not isinstance(v, EnumLit):
            return ("reject", "enum literal must be a name")
        for ev in st.values:
            if ev.name == v.name:
                return ("ok", ev.value)
        return ("reject", "unknown enum name")
    if st.kind == "input":
        if not isinstance(v, dict):
            return ("reject", "input object literal must be an object")
        known = set(f.name for f in st.input_fields)
        for k in v:
            if k not in known:
                return ("reject", "unknown input field %s" % k)
        out = collections.OrderedDict()
        statuses = []
        for f in st.input_fields:
            if f.name not in v:
                if f.has_default:
                    d = coerce_literal(s, f.type, f.default)
                    statuses.append(d)
                    out[f.pyname] = d[1]
                elif f.type[0] == "nonnull":
                    return ("reject", "missing required field %s" % f.name)
                continue
            r = coerce_literal(s, f.type, v[f.name], variables)
            statuses.append(r)
            out[f.pyname] = r[1]
        stt = _merge([x[0] for x in statuses])
        if stt != "ok":
            return (stt, _reason(statuses, stt))
        return ("ok", dict(out))
    raise AssertionError(name)


def coerce_input_literal_value(s, t, v):
    r = coerce_literal(s, t, v)
    return (r[0] == "ok", r[1])


def coerce_json(s, t, v):
    """Variable route (JSON values)."""
    if t[0] == "nonnull":
        if v is None:
            return ("reject", "null for non-null")
        return coerce_json(s, t[1], v)
    if v is None:
        return ("ok", None)
    if t[0] == "list":
        items = v if isinstance(v, list) else [v]
        res = [coerce_json(s, t[1], x) for x in items]
        st = _merge([r[0] for r in res])
        if st != "ok":
            return (st, _reason(res, st))
        return ("ok", [r[1] for r in res])
    name = t[1]
    if name in BUILTIN_SCALARS or s.types[name].kind == "scalar":
        return _scalar_json(s, name, v)
    st = s.types[name]
    if st.kind == "enum":
        if not isinstance(v, str):
            return ("reject", "enum value must be a string name")
        for ev in st.values:
            if ev.name == v:
                return ("ok", ev.value)
        return ("reject", "unknown enum name")
    if st.kind == "input":
        if not isinstance(v, dict):
            return ("reject", "input object must be an object")
        known = set(f.name for f in st.input_fields)
        for k in v:
            if k not in known:
                return ("reject", "unknown input field %s" % k)
        out = collections.OrderedDict()
        statuses = []
        for f in st.input_fields:
            if f.name not in v:
                if f.has_default:
                    d = coerce_literal(s, f.type, f.default)
                    statuses.append(d)
                    out[f.pyname] = d[1]
                elif f.type[0] == "nonnull":
                    return ("reject", "missing required field %s" % f.name)
                continue
            r = coerce_json(s, f.type, v[f.name])
            statuses.append(r)
            out[f.pyname] = r[1]
        stt = _merge([x[0] for x in statuses])
        if stt != "ok":
            return (stt, _reason(statuses, stt))
        return ("ok", dict(out))
    raise AssertionError(name)


def coerce_variables(s, var_defs, provided):
    """CoerceVariableValues. var_defs: [(name, type, default or UNSET)], provided: dict of JSON
    values. Returns (status, {name: value})."""
    out = {}
    statuses = []
    for name, t, default in var_defs:
        has = name in provided
        if not has and default is not UNSET:
            r = coerce_literal(s, t, default)
            statuses.append(r)
            out[name] = r[1]
        elif t[0] == "nonnull" and (not has or provided[name] is None):
            return ("reject", "variable $%s required" % name)
        elif has:
            if provided[name] is None:
                out[name] = None
            else:
                r = coerce_json(s, t, provided[name])
                statuses.append(r)
                out[name] = r[1]
    st = _merge([x[0] for x in statuses])
    if st != "ok":
        return (st, _reason(statuses, st))
    return ("ok", out)


def coerce_arguments(s, arg_defs, given, variables):
    """CoerceArgumentValues. arg_defs: [SInput]; given: {name: literal IR value or Var};
    variables: coerced variable values. Returns (status, {python_name: value})."""
    out = {}
    statuses = []
    for a in arg_defs:
        has = a.name in given
        value = given.get(a.name)
        is_var = isinstance(value, Var)
        if is_var:
            has = value.name in variables
            value = variables.get(value.name)
        if not has and a.has_default:
            r = coerce_literal(s, a.type, a.default)
            statuses.append(r)
            out[a.pyname] = r[1]
        elif a.type[0] == "nonnull" and (not has or value is None):
            return ("reject", "argument %s required" % a.name)
        elif has:
            if value is None:
                out[a.pyname] = None
            elif is_var:
                out[a.pyname] = value
            else:
                r = coerce_literal(s, a.type, value, variables)
                statuses.append(r)
                out[a.pyname] = r[1]
    st = _merge([x[0] for x in statuses])
    if st != "ok":
        return (st, _reason(statuses, st))
    return ("ok", out)


def conforms(s, t, v):
    """Does python value v conform to declared input type t (as handed to a resolver)?
    Returns None when ok, otherwise a reason string."""
    if t[0] == "nonnull":
        if v is None:
            return "null in non-null position"
        return conforms(s, t[1], v)
    if v is None:
        return None
    if t[0] == "list":
        if not isinstance(v, list):
            return "single value in list position"
        for x in v:
            r = conforms(s, t[1], x)
            if r:
                return r
        return None
    name = t[1]
    if name == "Int":
        if isinstance(v, bool):
            return None  # lenient: the built-in Int parser lets JSON booleans through
        if not isinstance(v, int):
            return "Int is %s" % type(v).__name__
        if not (MIN_INT <= v <= MAX_INT):
            return "Int outside 32-bit range"
        return None
    if name == "Float":
        if isinstance(v, float) and not math.isfinite(v):
            return "Float is not finite"
        return None if isinstance(v, float) else "Float is %s" % type(v).__name__
    if name in ("String", "ID"):
        return None if isinstance(v, str) else "%s is %s" % (name, type(v).__name__)
    if name == "Boolean":
        return None if isinstance(v, bool) else "Boolean is %s" % type(v).__name__
    st = s.types[name]
    if st.kind == "scalar":
        if st.strict and not (isinstance(v, tuple) and v[:2] == ("scalar", name)):
            return "strict scalar holds %r" % (v,)
        return None
    if st.kind == "enum":
        for ev in st.values:
            if type(ev.value) == type(v) and ev.value == v:
                return None
        return "enum holds %r which is no internal value" % (v,)
    if st.kind == "input":
        if not isinstance(v, dict):
            return "input object is %s" % type(v).__name__
        by_py = dict((f.pyname, f) for f in st.input_fields)
        for k in v:
            if k not in by_py:
                return "unknown key in input object holds %r" % k
        for f in st.input_fields:
            if f.pyname not in v:
                if f.has_default:
                    return "declared default missing holds %s" % f.name
                if f.type[0] == "nonnull":
                    return "required field missing holds %s" % f.name
                continue
            r = conforms(s, f.type, v[f.pyname])
            if r:
                return r
        return None
    return "not an input type"


def to_json_value(v):
    """IR literal value -> JSON variable value (EnumLit -> name)."""
    if isinstance(v, EnumLit):
        return v.name
    if isinstance(v, list):
        return [to_json_value(x) for x in v]
    if isinstance(v, dict):
        return collections.OrderedDict((k, to_json_value(x)) for k, x in v.items())
    return v
