# -*- coding: utf-8 -*-
"""
R-LANG: executable model of the June-2018 GraphQL grammar, written from the
specification text and independent of py_gql.lang.

Documented deviations adopted by the model (the property statement adopts
them):  look-ahead restrictions after numbers (CHANGES 0.5.0, spec RFCs
#599/#601: a number must not be followed by a digit, ``.`` or a name start),
three consecutive double quotes always open a block string, constant directives on variable
definitions incl. the VARIABLE_DEFINITION location, fragment variables behind
``experimental_fragment_variables``, optional ``{``-blocks are greedy.

The model returns plain dict trees in the very shape of ``Node.to_dict()``
(keys are the AST attribute names, ``__kind__`` the class name, ``loc`` a
``(start, end)`` tuple or ``None``), so the monitor can compare with ``==``.
"""
import sys

WS = " \t"
PUNCT = "!$&()...:=@[]{|}"
NAME_START = "_ABCDEFGHIJKLMNOPQRSTUVWXYZabcdefghijklmnopqrstuvwxyz"
DIGITS = "0123456789"
NAME_CONT = NAME_START + DIGITS
HEX = "0123456789abcdefABCDEF"
ESCAPES = {'"': '"', "\\": "\\", "/": "/", "b": "\b", "f": "\f", "n": "\n", "r": "\r", "t": "\t"}

EXEC_LOCATIONS = (
    "QUERY", "MUTATION", "SUBSCRIPTION", "FIELD", "FRAGMENT_DEFINITION",
    "FRAGMENT_SPREAD", "INLINE_FRAGMENT", "VARIABLE_DEFINITION",
)
TS_LOCATIONS = (
    "SCHEMA", "SCALAR", "OBJECT", "FIELD_DEFINITION", "ARGUMENT_DEFINITION",
    "INTERFACE", "UNION", "ENUM", "ENUM_VALUE", "INPUT_OBJECT", "INPUT_FIELD_DEFINITION",
)
LOCATIONS = frozenset(EXEC_LOCATIONS + TS_LOCATIONS)


class RefSyntaxError(Exception):
    def __init__(self, msg, pos):
        Exception.__init__(self, "%s at %d" % (msg, pos))
        self.pos = pos


class Abstain(Exception):
    """The 2018 text does not decide this input."""


def is_source_char(c):
    o = ord(c)
    return o == 9 or o == 10 or o == 13 or o >= 0x20


def block_string_value(raw):
    """BlockStringValue(rawValue) of the specification."""
    lines = []
    cur = []
    i, n = 0, len(raw)
    while i < n:
        c = raw[i]
        if c == "\r":
            lines.append("".join(cur))
            cur = []
            if i + 1 < n and raw[i + 1] == "\n":
                i += 1
        elif c == "\n":
            lines.append("".join(cur))
            cur = []
        else:
            cur.append(c)
        i += 1
    lines.append("".join(cur))

    def indent_of(line):
        k = 0
        while k < len(line) and line[k] in WS:
            k += 1
        return k

    common = None
    for line in lines[1:]:
        ind = indent_of(line)
        if ind < len(line):
            if common is None or ind < common:
                common = ind
    if common:
        for k in range(1, len(lines)):
            lines[k] = lines[k][common:]
    while lines and indent_of(lines[0]) == len(lines[0]):
        lines.pop(0)
    while lines and indent_of(lines[-1]) == len(lines[-1]):
        lines.pop()
    return "\n".join(lines)


class Tok:
    __slots__ = ("kind", "start", "end", "value")

    def __init__(self, kind, start, end, value=None):
        self.kind, self.start, self.end, self.value = kind, start, end, value

    def __repr__(self):
        return "Tok(%s,%d,%d,%r)" % (self.kind, self.start, self.end, self.value)


def lex(src):
    """Tokenise the whole text (maximal munch); raises RefSyntaxError."""
    toks = []
    i, n = 0, len(src)
    while True:
        # Ignored
        while i < n:
            c = src[i]
            if c in " \t\n\r,\ufeff":
                i += 1
            elif c == "#":
                i += 1
                while i < n and src[i] not in "\n\r" and is_source_char(src[i]):
                    i += 1
            else:
                break
        if i >= n:
            toks.append(Tok("EOF", n, n))
            return toks
        c = src[i]
        if not is_source_char(c):
            raise RefSyntaxError("invalid source character", i)
        if c in "!$&():=@[]{|}":
            toks.append(Tok(c, i, i + 1, c))
            i += 1
        elif c == ".":
            if src[i:i + 3] == "...":
                toks.append(Tok("...", i, i + 3, "..."))
                i += 3
            else:
                raise RefSyntaxError("expected ...", i)
        elif c in NAME_START:
            j = i + 1
            while j < n and src[j] in NAME_CONT:
                j += 1
            toks.append(Tok("Name", i, j, src[i:j]))
            i = j
        elif c == "-" or c in DIGITS:
            j = i
            if src[j] == "-":
                j += 1
            if j >= n or src[j] not in DIGITS:
                raise RefSyntaxError("expected digit", min(j, n))
            if src[j] == "0":
                j += 1
            else:
                while j < n and src[j] in DIGITS:
                    j += 1
            is_float = False
            if j < n and src[j] == ".":
                # FractionalPart : . Digit+
                k = j + 1
                if k >= n or src[k] not in DIGITS:
                    raise RefSyntaxError("expected digit after .", min(k, n))
                while k < n and src[k] in DIGITS:
                    k += 1
                j = k
                is_float = True
            if j < n and src[j] in "eE":
                k = j + 1
                if k < n and src[k] in "+-":
                    k += 1
                if k >= n or src[k] not in DIGITS:
                    raise RefSyntaxError("expected digit in exponent", min(k, n))
                while k < n and src[k] in DIGITS:
                    k += 1
                j = k
                is_float = True
            if j < n and (src[j] in DIGITS or src[j] == "." or src[j] in NAME_START):
                raise RefSyntaxError("lookahead restriction after number", j)
            toks.append(Tok("Float" if is_float else "Int", i, j, src[i:j]))
            i = j
        elif c == '"':
            if src[i:i + 3] == '"""':
                j = i + 3
                raw = []
                while True:
                    if j >= n:
                        raise RefSyntaxError("unterminated block string", n)
                    if src[j:j + 3] == '"""':
                        j += 3
                        break
                    if src[j:j + 4] == '\\"""':
                        raw.append('"""')
                        j += 4
                        continue
                    if not is_source_char(src[j]):
                        raise RefSyntaxError("invalid character in block string", j)
                    raw.append(src[j])
                    j += 1
                toks.append(Tok("BlockString", i, j, block_string_value("".join(raw))))
                i = j
            else:
                j = i + 1
                val = []
                while True:
                    if j >= n:
                        raise RefSyntaxError("unterminated string", n)
                    ch = src[j]
                    if ch == '"':
                        j += 1
                        break
                    if ch in "\n\r":
                        raise RefSyntaxError("unterminated string", j)
                    if not is_source_char(ch):
                        raise RefSyntaxError("invalid character in string", j)
                    if ch == "\\":
                        if j + 1 >= n:
                            raise RefSyntaxError("unterminated string", n)
                        e = src[j + 1]
                        if e == "u":
                            hx = src[j + 2:j + 6]
                            if len(hx) == 4 and all(h in HEX for h in hx):
                                val.append(chr(int(hx, 16)))
                                j += 6
                            else:
                                raise RefSyntaxError("bad unicode escape", j)
                        elif e in ESCAPES:
                            val.append(ESCAPES[e])
                            j += 2
                        else:
                            raise RefSyntaxError("bad escape", j)
                    else:
                        val.append(ch)
                        j += 1
                toks.append(Tok("String", i, j, "".join(val)))
                i = j
        else:
            raise RefSyntaxError("unexpected character", i)


class RefParser:
    def __init__(self, src, no_location=False, allow_type_system=False,
                 experimental_fragment_variables=False):
        if isinstance(src, bytes):
            src = src.decode("utf8")
        self.src = src
        self.noloc = no_location
        self.ts = allow_type_system
        self.fragvars = experimental_fragment_variables
        self.toks = lex(src)
        self.i = 0
        self.depth = 0

    # -- helpers --------------------------------------------------------
    @property
    def tok(self):
        return self.toks[self.i]

    def peek(self, k=1):
        j = min(self.i + k, len(self.toks) - 1)
        return self.toks[j]

    def fail(self, msg="unexpected token"):
        raise RefSyntaxError(msg, self.tok.start)

    def adv(self):
        t = self.toks[self.i]
        if t.kind != "EOF":
            self.i += 1
        return t

    def expect(self, kind):
        if self.tok.kind != kind:
            self.fail("expected %s" % kind)
        return self.adv()

    def is_kw(self, word, t=None):
        t = t or self.tok
        return t.kind == "Name" and t.value == word

    def expect_kw(self, word):
        if not self.is_kw(word):
            self.fail("expected keyword %s" % word)
        return self.adv()

    def loc(self, start_tok):
        if self.noloc:
            return None
        return (start_tok.start, self.toks[self.i - 1].end)

    def node(self, kind, start_tok, **attrs):
        d = dict(attrs)
        d["__kind__"] = kind
        d["loc"] = self.loc(start_tok)
        return d

    def enter(self):
        self.depth += 1
        if self.depth > 150:
            raise Abstain("nesting deeper than the model explores")

    def leave(self):
        self.depth -= 1

    # -- entry points ---------------------------------------------------
    def parse_document(self):
        defs = []
        while True:
            defs.append(self.definition())
            if self.tok.kind == "EOF":
                break
        return {
            "__kind__": "Document",
            "definitions": defs,
            # library convention: the document spans <SOF>..<EOF>
            "loc": None if self.noloc else (0, len(self.src)),
        }

    def parse_value_entry(self):
        v = self.value(False)
        self.expect("EOF")
        return v

    def parse_type_entry(self):
        t = self.type_ref()
        self.expect("EOF")
        return t

    # -- shared ---------------------------------------------------------
    def name(self):
        t = self.expect("Name")
        return self.node("Name", t, value=t.value)

    def definition(self):
        t = self.tok
        if t.kind == "{":
            return self.operation()
        if t.kind == "Name":
            if t.value in ("query", "mutation", "subscription"):
                return self.operation()
            if t.value == "fragment":
                return self.fragment_definition()
            if self.ts:
                if t.value in ("schema", "scalar", "type", "interface", "union", "enum",
                               "input", "directive"):
                    return self.type_system_definition()
                if t.value == "extend":
                    return self.type_system_extension()
        elif self.ts and t.kind in ("String", "BlockString"):
            return self.type_system_definition()
        self.fail("unexpected start of definition")

    # -- executable -----------------------------------------------------
    def operation(self):
        start = self.tok
        if start.kind == "{":
            sel = self.selection_set()
            return self.node("OperationDefinition", start, operation="query", name=None,
                             variable_definitions=[], directives=[], selection_set=sel)
        op = self.adv().value
        name = self.name() if self.tok.kind == "Name" else None
        vdefs = self.variable_definitions()
        dirs = self.directives(False)
        sel = self.selection_set()
        return self.node("OperationDefinition", start, operation=op, name=name,
                         variable_definitions=vdefs, directives=dirs, selection_set=sel)

    def variable_definitions(self):
        out = []
        if self.tok.kind == "(":
            self.adv()
            while True:
                out.append(self.variable_definition())
                if self.tok.kind == ")":
                    self.adv()
                    break
        return out

    def variable_definition(self):
        start = self.tok
        var = self.variable()
        self.expect(":")
        typ = self.type_ref()
        default = None
        if self.tok.kind == "=":
            self.adv()
            default = self.value(True)
        dirs = self.directives(True)
        return self.node("VariableDefinition", start, variable=var, type=typ,
                         default_value=default, directives=dirs)

    def variable(self):
        start = self.expect("$")
        nm = self.name()
        return self.node("Variable", start, name=nm)

    def selection_set(self):
        self.enter()
        start = self.expect("{")
        sels = []
        while True:
            sels.append(self.selection())
            if self.tok.kind == "}":
                self.adv()
                break
        self.leave()
        return self.node("SelectionSet", start, selections=sels)

    def selection(self):
        if self.tok.kind == "...":
            return self.fragment()
        return self.field()

    def field(self):
        start = self.tok
        first = self.name()
        alias = None
        if self.tok.kind == ":":
            self.adv()
            alias, nm = first, self.name()
        else:
            nm = first
        args = self.arguments(False)
        dirs = self.directives(False)
        sel = self.selection_set() if self.tok.kind == "{" else None
        return self.node("Field", start, name=nm, alias=alias, arguments=args,
                         directives=dirs, selection_set=sel)

    def arguments(self, const):
        out = []
        if self.tok.kind == "(":
            self.adv()
            while True:
                out.append(self.argument(const))
                if self.tok.kind == ")":
                    self.adv()
                    break
        return out

    def argument(self, const):
        start = self.tok
        nm = self.name()
        self.expect(":")
        val = self.value(const)
        return self.node("Argument", start, name=nm, value=val)

    def fragment(self):
        start = self.expect("...")
        t = self.tok
        if t.kind == "Name" and t.value != "on":
            nm = self.name()
            dirs = self.directives(False)
            return self.node("FragmentSpread", start, name=nm, directives=dirs)
        cond = None
        if self.is_kw("on"):
            self.adv()
            cond = self.named_type()
        dirs = self.directives(False)
        sel = self.selection_set()
        return self.node("InlineFragment", start, type_condition=cond, directives=dirs,
                         selection_set=sel)

    def fragment_definition(self):
        start = self.expect_kw("fragment")
        if self.is_kw("on"):
            self.fail("fragment name cannot be on")
        nm = self.name()
        vdefs = self.variable_definitions() if self.fragvars else []
        self.expect_kw("on")
        cond = self.named_type()
        dirs = self.directives(False)
        sel = self.selection_set()
        return self.node("FragmentDefinition", start, name=nm, variable_definitions=vdefs,
                         type_condition=cond, directives=dirs, selection_set=sel)

    # -- values and types -------------------------------------------------
    def value(self, const):
        t = self.tok
        k = t.kind
        if k == "[":
            self.enter()
            self.adv()
            vals = []
            while self.tok.kind != "]":
                vals.append(self.value(const))
            self.adv()
            self.leave()
            return self.node("ListValue", t, values=vals)
        if k == "{":
            self.enter()
            self.adv()
            fields = []
            while self.tok.kind != "}":
                fstart = self.tok
                nm = self.name()
                self.expect(":")
                v = self.value(const)
                fields.append(self.node("ObjectField", fstart, name=nm, value=v))
            self.adv()
            self.leave()
            return self.node("ObjectValue", t, fields=fields)
        if k == "Int":
            self.adv()
            return self.node("IntValue", t, value=t.value)
        if k == "Float":
            self.adv()
            return self.node("FloatValue", t, value=t.value)
        if k in ("String", "BlockString"):
            self.adv()
            return self.node("StringValue", t, value=t.value, block=(k == "BlockString"))
        if k == "Name":
            self.adv()
            if t.value in ("true", "false"):
                return self.node("BooleanValue", t, value=(t.value == "true"))
            if t.value == "null":
                return self.node("NullValue", t)
            return self.node("EnumValue", t, value=t.value)
        if k == "$" and not const:
            return self.variable()
        self.fail("expected value")

    def directives(self, const):
        out = []
        while self.tok.kind == "@":
            start = self.adv()
            nm = self.name()
            args = self.arguments(const)
            out.append(self.node("Directive", start, name=nm, arguments=args))
        return out

    def type_ref(self):
        start = self.tok
        if self.tok.kind == "[":
            self.enter()
            self.adv()
            inner = self.type_ref()
            self.expect("]")
            self.leave()
            typ = self.node("ListType", start, type=inner)
        else:
            typ = self.named_type()
        if self.tok.kind == "!":
            self.adv()
            return self.node("NonNullType", start, type=typ)
        return typ

    def named_type(self):
        start = self.tok
        nm = self.name()
        return self.node("NamedType", start, name=nm)

    # -- type system ----------------------------------------------------
    def description(self):
        t = self.tok
        if t.kind in ("String", "BlockString"):
            self.adv()
            return self.node("StringValue", t, value=t.value, block=(t.kind == "BlockString"))
        return None

    def type_system_definition(self):
        t = self.tok
        kw = self.peek(1) if t.kind in ("String", "BlockString") else t
        if kw.kind != "Name":
            raise RefSyntaxError("expected definition keyword", kw.start)
        v = kw.value
        start = self.tok
        if v == "schema":
            # June 2018: no description on schema definitions
            self.expect_kw("schema")
            dirs = self.directives(True)
            ops = self.operation_type_definitions(required=True)
            return self.node("SchemaDefinition", start, directives=dirs, operation_types=ops)
        if v == "scalar":
            desc = self.description()
            self.expect_kw("scalar")
            nm = self.name()
            dirs = self.directives(True)
            return self.node("ScalarTypeDefinition", start, description=desc, name=nm,
                             directives=dirs)
        if v == "type":
            desc = self.description()
            self.expect_kw("type")
            nm = self.name()
            ifaces = self.implements()
            dirs = self.directives(True)
            fields = self.fields_definition()
            return self.node("ObjectTypeDefinition", start, description=desc, name=nm,
                             interfaces=ifaces, directives=dirs, fields=fields)
        if v == "interface":
            desc = self.description()
            self.expect_kw("interface")
            nm = self.name()
            dirs = self.directives(True)
            fields = self.fields_definition()
            return self.node("InterfaceTypeDefinition", start, description=desc, name=nm,
                             directives=dirs, fields=fields)
        if v == "union":
            desc = self.description()
            self.expect_kw("union")
            nm = self.name()
            dirs = self.directives(True)
            types = self.union_members()
            return self.node("UnionTypeDefinition", start, description=desc, name=nm,
                             directives=dirs, types=types)
        if v == "enum":
            desc = self.description()
            self.expect_kw("enum")
            nm = self.name()
            dirs = self.directives(True)
            values = self.enum_values()
            return self.node("EnumTypeDefinition", start, description=desc, name=nm,
                             directives=dirs, values=values)
        if v == "input":
            desc = self.description()
            self.expect_kw("input")
            nm = self.name()
            dirs = self.directives(True)
            fields = self.input_fields()
            return self.node("InputObjectTypeDefinition", start, description=desc, name=nm,
                             directives=dirs, fields=fields)
        if v == "directive":
            desc = self.description()
            self.expect_kw("directive")
            self.expect("@")
            nm = self.name()
            args = self.arguments_definition()
            self.expect_kw("on")
            locs = []
            if self.tok.kind == "|":
                self.adv()
            while True:
                lt = self.tok
                ln = self.name()
                if ln["value"] not in LOCATIONS:
                    raise RefSyntaxError("unknown directive location", lt.start)
                locs.append(ln)
                if self.tok.kind == "|":
                    self.adv()
                else:
                    break
            return self.node("DirectiveDefinition", start, description=desc, name=nm,
                             arguments=args, locations=locs)
        raise RefSyntaxError("unexpected keyword", kw.start)

    def operation_type_definitions(self, required):
        out = []
        if self.tok.kind != "{":
            if required:
                self.fail("expected {")
            return out
        self.adv()
        while True:
            start = self.tok
            t = self.expect("Name")
            if t.value not in ("query", "mutation", "subscription"):
                raise RefSyntaxError("expected operation type", t.start)
            self.expect(":")
            typ = self.named_type()
            out.append(self.node("OperationTypeDefinition", start, operation=t.value, type=typ))
            if self.tok.kind == "}":
                self.adv()
                break
        return out

    def implements(self):
        out = []
        if self.is_kw("implements"):
            self.adv()
            if self.tok.kind == "&":
                self.adv()
            while True:
                out.append(self.named_type())
                if self.tok.kind == "&":
                    self.adv()
                else:
                    break
        return out

    def fields_definition(self):
        out = []
        if self.tok.kind == "{":
            self.adv()
            while True:
                start = self.tok
                desc = self.description()
                nm = self.name()
                args = self.arguments_definition()
                self.expect(":")
                typ = self.type_ref()
                dirs = self.directives(True)
                out.append(self.node("FieldDefinition", start, description=desc, name=nm,
                                     arguments=args, type=typ, directives=dirs))
                if self.tok.kind == "}":
                    self.adv()
                    break
        return out

    def arguments_definition(self):
        out = []
        if self.tok.kind == "(":
            self.adv()
            while True:
                out.append(self.input_value_definition())
                if self.tok.kind == ")":
                    self.adv()
                    break
        return out

    def input_value_definition(self):
        start = self.tok
        desc = self.description()
        nm = self.name()
        self.expect(":")
        typ = self.type_ref()
        default = None
        if self.tok.kind == "=":
            self.adv()
            default = self.value(True)
        dirs = self.directives(True)
        return self.node("InputValueDefinition", start, description=desc, name=nm, type=typ,
                         default_value=default, directives=dirs)

    def union_members(self):
        out = []
        if self.tok.kind == "=":
            self.adv()
            if self.tok.kind == "|":
                self.adv()
            while True:
                out.append(self.named_type())
                if self.tok.kind == "|":
                    self.adv()
                else:
                    break
        return out

    def enum_values(self):
        out = []
        if self.tok.kind == "{":
            self.adv()
            while True:
                start = self.tok
                desc = self.description()
                t = self.tok
                if t.kind == "Name" and t.value in ("true", "false", "null"):
                    raise RefSyntaxError("enum value cannot be true/false/null", t.start)
                nm = self.name()
                dirs = self.directives(True)
                out.append(self.node("EnumValueDefinition", start, description=desc, name=nm,
                                     directives=dirs))
                if self.tok.kind == "}":
                    self.adv()
                    break
        return out

    def input_fields(self):
        out = []
        if self.tok.kind == "{":
            self.adv()
            while True:
                out.append(self.input_value_definition())
                if self.tok.kind == "}":
                    self.adv()
                    break
        return out

    def type_system_extension(self):
        start = self.expect_kw("extend")
        kw = self.tok
        if kw.kind != "Name":
            self.fail("expected keyword after extend")
        v = kw.value
        if v == "schema":
            self.adv()
            dirs = self.directives(True)
            ops = self.operation_type_definitions(required=False)
            if not dirs and not ops:
                self.fail("empty schema extension")
            return self.node("SchemaExtension", start, directives=dirs, operation_types=ops)
        if v == "scalar":
            self.adv()
            nm = self.name()
            dirs = self.directives(True)
            if not dirs:
                self.fail("scalar extension without directives")
            return self.node("ScalarTypeExtension", start, name=nm, directives=dirs)
        if v == "type":
            self.adv()
            nm = self.name()
            ifaces = self.implements()
            dirs = self.directives(True)
            fields = self.fields_definition()
            if not ifaces and not dirs and not fields:
                self.fail("empty object extension")
            return self.node("ObjectTypeExtension", start, name=nm, interfaces=ifaces,
                             directives=dirs, fields=fields)
        if v == "interface":
            self.adv()
            nm = self.name()
            dirs = self.directives(True)
            fields = self.fields_definition()
            if not dirs and not fields:
                self.fail("empty interface extension")
            return self.node("InterfaceTypeExtension", start, name=nm, directives=dirs,
                             fields=fields)
        if v == "union":
            self.adv()
            nm = self.name()
            dirs = self.directives(True)
            types = self.union_members()
            if not dirs and not types:
                self.fail("empty union extension")
            return self.node("UnionTypeExtension", start, name=nm, directives=dirs, types=types)
        if v == "enum":
            self.adv()
            nm = self.name()
            dirs = self.directives(True)
            values = self.enum_values()
            if not dirs and not values:
                self.fail("empty enum extension")
            return self.node("EnumTypeExtension", start, name=nm, directives=dirs, values=values)
        if v == "input":
            self.adv()
            nm = self.name()
            dirs = self.directives(True)
            fields = self.input_fields()
            if not dirs and not fields:
                self.fail("empty input extension")
            return self.node("InputObjectTypeExtension", start, name=nm, directives=dirs,
                             fields=fields)
        self.fail("unexpected keyword after extend")


ENTRIES = ("document", "value", "type")


def ref_parse(entry, src, **flags):
    """Returns ('accept', tree) | ('reject', pos) | ('abstain', reason)."""
    old = sys.getrecursionlimit()
    try:
        try:
            p = RefParser(src, **flags)
            if entry == "document":
                tree = p.parse_document()
            elif entry == "value":
                tree = p.parse_value_entry()
            else:
                tree = p.parse_type_entry()
            return ("accept", tree)
        except RefSyntaxError as e:
            return ("reject", e.pos)
        except Abstain as e:
            return ("abstain", str(e))
    finally:
        sys.setrecursionlimit(old)
