# -*- coding: utf-8 -*-
"""
canon: canonical, order-aware structural description of a py_gql Schema (what was
declared: types, members, wrappers, defaults, descriptions, deprecations, directives, roots),
the same description computed from the schema IR, an identity map of the attributes that
transformations must preserve, and the closure invariant of the type graph.
"""
import collections
import re
import copy

from ..gen import schemair as S
from ..gen.schemair import UNSET
from . import refcoerce

BUILTIN = set(S.BUILTIN_SCALARS)


def is_internal(name):
    return name in BUILTIN or name.startswith("__")


def cval(v):
    """Type-aware canonical form of a python default value."""
    if isinstance(v, dict):
        return {"obj": sorted([[k, cval(x)] for k, x in v.items()], key=lambda kv: kv[0])}
    if isinstance(v, (list, tuple)):
        return {"list": [cval(x) for x in v], "t": type(v).__name__}
    if isinstance(v, bool) or v is None or isinstance(v, (int, str)):
        return {"v": v, "t": type(v).__name__}
    if isinstance(v, float):
        return {"v": repr(v), "t": "float"}
    return {"repr": repr(v)}


def type_str(t):
    import py_gql.schema as PS

    if isinstance(t, PS.NonNullType):
        return type_str(t.type) + "!"
    if isinstance(t, PS.ListType):
        return "[%s]" % type_str(t.type)
    return t.name


def _input_value(a, with_python=False):
    d = collections.OrderedDict()
    d["name"] = a.name
    d["type"] = type_str(a.type)
    d["has_default"] = bool(a.has_default_value)
    d["default"] = cval(a.default_value) if a.has_default_value else None
    d["description"] = a.description
    if with_python:
        d["python_name"] = a.python_name
    return d


def _field(f, with_python=False):
    d = collections.OrderedDict()
    d["name"] = f.name
    d["type"] = type_str(f.type)
    d["args"] = [_input_value(a, with_python) for a in f.arguments]
    d["description"] = f.description
    d["deprecation"] = f.deprecation_reason if f.deprecated else None
    if with_python:
        d["python_name"] = f.python_name
    return d


def canon_schema(schema, with_python=False, with_enum_values=False):
    import py_gql.schema as PS

    out = collections.OrderedDict()
    for op in ("query", "mutation", "subscription"):
        t = getattr(schema, op + "_type")
        out[op] = t.name if t is not None else None
    types = {}
    for name, t in schema.types.items():
        if is_internal(name):
            continue
        d = collections.OrderedDict()
        d["description"] = t.description
        if isinstance(t, PS.ObjectType):
            d["kind"] = "object"
            d["interfaces"] = [i.name for i in t.interfaces]
            d["fields"] = [_field(f, with_python) for f in t.fields]
        elif isinstance(t, PS.InterfaceType):
            d["kind"] = "interface"
            d["fields"] = [_field(f, with_python) for f in t.fields]
        elif isinstance(t, PS.UnionType):
            d["kind"] = "union"
            d["members"] = [m.name for m in t.types]
        elif isinstance(t, PS.EnumType):
            d["kind"] = "enum"
            vals = []
            for v in t.values:
                e = collections.OrderedDict([("name", v.name), ("description", v.description),
                                             ("deprecation", v.deprecation_reason if v.deprecated else None)])
                if with_enum_values:
                    e["value"] = cval(v.value)
                vals.append(e)
            d["values"] = vals
        elif isinstance(t, PS.InputObjectType):
            d["kind"] = "input"
            d["fields"] = [_input_value(f, with_python) for f in t.fields]
        elif isinstance(t, PS.ScalarType):
            d["kind"] = "scalar"
        else:
            d["kind"] = type(t).__name__
        types[name] = d
    out["types"] = types
    dirs = {}
    for name, dr in schema.directives.items():
        if name in ("skip", "include", "deprecated"):
            continue
        dirs[name] = collections.OrderedDict([
            ("description", dr.description), ("locations", list(dr.locations)),
            ("args", [_input_value(a, with_python) for a in dr.arguments])])
    out["directives"] = dirs
    return out


def sdl_view(ir):
    """The IR as SDL can carry it: enum values are their names, scalars are transparent,
    no python names."""
    from ..gen.schemair import clone as _clone

    v = _clone(ir)
    for t in v.types.values():
        t.strict = False
        t.vanishing = False
        for ev in t.values:
            ev.value = ev.name
        for f in t.fields:
            f.python_name = None
            for a in f.args:
                a.python_name = None
        for f in t.input_fields:
            f.python_name = None
    for d in v.directives.values():
        for a in d.args:
            a.python_name = None
    return v


def _ir_input(ir, a, with_python=False):
    d = collections.OrderedDict()
    d["name"] = a.name
    d["type"] = S.type_str(a.type)
    d["has_default"] = a.has_default
    if a.has_default:
        if hasattr(a, "py_default"):
            d["default"] = a.py_default   # annotated on the source IR (survives renames / filtering)
        else:
            st, val = refcoerce.coerce_literal(ir, a.type, a.default)
            assert st == "ok", (a.name, a.default, val)
            d["default"] = cval(val)
    else:
        d["default"] = None
    d["description"] = a.description
    if with_python:
        d["python_name"] = a.pyname
    return d


def _ir_field(ir, f, with_python=False):
    d = collections.OrderedDict()
    d["name"] = f.name
    d["type"] = S.type_str(f.type)
    d["args"] = [_ir_input(ir, a, with_python) for a in f.args]
    d["description"] = f.description
    d["deprecation"] = f.deprecation
    if with_python:
        d["python_name"] = f.python_name or f.name
    return d


def canon_ir(ir, with_python=False, with_enum_values=False):
    out = collections.OrderedDict()
    out["query"], out["mutation"], out["subscription"] = ir.query, ir.mutation, ir.subscription
    types = {}
    for name, t in ir.types.items():
        d = collections.OrderedDict()
        d["description"] = t.description
        d["kind"] = t.kind
        if t.kind == "object":
            d["interfaces"] = list(t.interfaces)
            d["fields"] = [_ir_field(ir, f, with_python) for f in t.fields]
        elif t.kind == "interface":
            d["fields"] = [_ir_field(ir, f, with_python) for f in t.fields]
        elif t.kind == "union":
            d["members"] = list(t.members)
        elif t.kind == "enum":
            vals = []
            for v in t.values:
                e = collections.OrderedDict([("name", v.name), ("description", v.description), ("deprecation", v.deprecation)])
                if with_enum_values:
                    e["value"] = cval(v.value)
                vals.append(e)
            d["values"] = vals
        elif t.kind == "input":
            d["fields"] = [_ir_input(ir, f, with_python) for f in t.input_fields]
        # reorder keys like canon_schema
        if t.kind in ("object",):
            d = collections.OrderedDict([("description", d["description"]), ("kind", "object"),
                                         ("interfaces", d["interfaces"]), ("fields", d["fields"])])
        types[name] = d
    out["types"] = types
    dirs = {}
    for name, dr in ir.directives.items():
        dirs[name] = collections.OrderedDict([("description", dr.description), ("locations", list(dr.locations)),
                                              ("args", [_ir_input(ir, a, with_python) for a in dr.args])])
    out["directives"] = dirs
    return out


def diff(a, b, path=""):
    """First difference between two canonical descriptions: (path, a, b) or None."""
    if isinstance(a, dict) and isinstance(b, dict):
        for k in list(a.keys()) + [k for k in b.keys() if k not in a]:
            if k not in a:
                return (path + "/" + str(k), "<absent>", _short(b[k]))
            if k not in b:
                return (path + "/" + str(k), _short(a[k]), "<absent>")
            r = diff(a[k], b[k], path + "/" + str(k))
            if r:
                return r
        return None
    if isinstance(a, list) and isinstance(b, list):
        names_a = [x.get("name") if isinstance(x, dict) else x for x in a]
        names_b = [x.get("name") if isinstance(x, dict) else x for x in b]
        if names_a != names_b:
            return (path + "/<members>", names_a, names_b)
        for i, (x, y) in enumerate(zip(a, b)):
            r = diff(x, y, path + "/" + (str(names_a[i]) if isinstance(x, dict) else str(i)))
            if r:
                return r
        return None
    if a != b or type(a) != type(b):
        return (path, _short(a), _short(b))
    return None


def _short(x):
    r = repr(x)
    return r if len(r) < 200 else r[:200] + "..."


def diff_key(d):
    """Mechanism discriminator from a diff path: the attribute that differs, not the names."""
    parts = [p for p in d[0].split("/") if p]
    if not parts:
        return "root"
    if parts[0] in ("query", "mutation", "subscription"):
        return "root-type"
    if parts[0] == "types":
        if len(parts) == 2:
            return "type-" + ("missing" if d[2] == "<absent>" else "extra" if d[1] == "<absent>" else "differs")
        tail = [p for p in parts[2:] if p in ("description", "kind", "interfaces", "fields", "members", "values", "args",
                                               "type", "default", "has_default", "deprecation", "<members>", "name",
                                               "python_name", "value")]
        return "type:" + ".".join(tail)
    if parts[0] == "directives":
        if len(parts) == 2:
            return "directive-" + ("missing" if d[2] == "<absent>" else "extra" if d[1] == "<absent>" else "differs")
        tail = [p for p in parts[2:] if p in ("description", "locations", "args", "type", "default", "has_default", "<members>")]
        return "directive:" + ".".join(tail)
    return parts[0]


# ---------------------------------------------------------------------------
# closure invariant
# ---------------------------------------------------------------------------


def closure_problems(schema):
    """Every type reachable through roots, registry, fields, arguments, input fields, interfaces,
    union members and directive arguments is the very object registered under its name.
    Returns ([(where, name)], edges_checked)."""
    import py_gql.schema as PS

    problems = []
    edges = [0]
    seen = set()

    def unwrap(t):
        while isinstance(t, (PS.ListType, PS.NonNullType)):
            t = t.type
        return t

    def ref(t, where):
        t = unwrap(t)
        edges[0] += 1
        reg = schema.types.get(t.name)
        if reg is None:
            problems.append(("unregistered:" + where.split(":")[0], "%s -> %s" % (where, t.name)))
        elif reg is not t:
            problems.append(("stale-object:" + where.split(":")[0], "%s -> %s" % (where, t.name)))
        visit(t)

    def visit(t):
        if id(t) in seen:
            return
        seen.add(id(t))
        if isinstance(t, (PS.ObjectType, PS.InterfaceType)):
            for f in t.fields:
                ref(f.type, "field-type:%s.%s" % (t.name, f.name))
                for a in f.arguments:
                    ref(a.type, "argument-type:%s.%s(%s)" % (t.name, f.name, a.name))
            if isinstance(t, PS.ObjectType):
                for i in t.interfaces:
                    ref(i, "interface:%s" % t.name)
        elif isinstance(t, PS.UnionType):
            for m in t.types:
                ref(m, "union-member:%s" % t.name)
        elif isinstance(t, PS.InputObjectType):
            for f in t.fields:
                ref(f.type, "input-field-type:%s.%s" % (t.name, f.name))

    for op in ("query", "mutation", "subscription"):
        t = getattr(schema, op + "_type")
        if t is not None:
            ref(t, "root:" + op)
    for name, t in list(schema.types.items()):
        if t.name != name:
            problems.append(("registry-key-mismatch", "%s registered under %s" % (t.name, name)))
        visit(t)
    for d in schema.directives.values():
        for a in d.arguments:
            ref(a.type, "directive-argument-type:@%s(%s)" % (d.name, a.name))
        # the by-name index of a directive's arguments holds the very same argument objects
        amap = getattr(d, "argument_map", None)
        if amap is not None:
            edges[0] += 1
            if sorted(amap) != sorted(a.name for a in d.arguments) or any(amap[a.name] is not a for a in d.arguments):
                problems.append(("stale-object:directive-argument-map", "@%s" % d.name))
    for t in schema.types.values():
        if isinstance(t, (PS.ObjectType, PS.InterfaceType)):
            for f in t.fields:
                amap = getattr(f, "argument_map", None)
                if amap is not None:
                    edges[0] += 1
                    if sorted(amap) != sorted(a.name for a in f.arguments) or any(amap[a.name] is not a for a in f.arguments):
                        problems.append(("stale-object:field-argument-map", "%s.%s" % (t.name, f.name)))
    # implementations index consistent with the registry
    for iname, impls in schema.implementations.items():
        for o in impls:
            edges[0] += 1
            if schema.types.get(o.name) is not o:
                problems.append(("stale-object:implementations", "%s implements %s" % (o.name, iname)))
    return problems, edges[0]


def annotate_defaults(ir):
    """Record, on every input value of the IR, the canonical python value of its declared default
    (so that copies of the IR with renamed or removed members still describe the same default)."""
    def ann(a):
        if a.has_default:
            st, val = refcoerce.coerce_literal(ir, a.type, a.default)
            assert st == "ok", (a.name, a.default, val)
            a.py_default = cval(val)
    for t in ir.types.values():
        for f in t.fields:
            for a in f.args:
                ann(a)
        for f in t.input_fields:
            ann(f)
    for d in ir.directives.values():
        for a in d.args:
            ann(a)


# ---------------------------------------------------------------------------
# number-like strings of transparent custom scalars (known finding of C12 / C15)
# ---------------------------------------------------------------------------
_CANON_INT = re.compile(r"^-?(0|[1-9][0-9]*)\Z")


def respelled_numberlike(text):
    """What the library's printer makes of a custom-scalar string that python's float() accepts: the text itself
    when it is a canonical integer, else the repr of the float (pinned by tests/test_utilities/test_ast_node_from_value.py).
    None when the string is not number-like (or not finite)."""
    import math

    if not isinstance(text, str):
        return None
    if _CANON_INT.match(text):
        return text
    try:
        fl = float(text)
    except ValueError:
        return None
    if not math.isfinite(fl):
        return None
    return str(fl)


def numberlike_scalar_strings(ir):
    """Number-like strings that occur at transparent custom scalar positions of declared defaults."""
    out = set()

    def walk(t, v):
        if v is None:
            return
        if t[0] == "nonnull":
            return walk(t[1], v)
        if t[0] == "list":
            if isinstance(v, list):
                for x in v:
                    walk(t[1], x)
            else:
                walk(t[1], v)
            return
        st = ir.types.get(t[1])
        if st is None:
            return
        if st.kind == "scalar" and not st.strict:
            if isinstance(v, str) and respelled_numberlike(v) not in (None, v):
                out.add(v)
        elif st.kind == "input" and isinstance(v, dict):
            for f in st.input_fields:
                if f.name in v:
                    walk(f.type, v[f.name])
                elif f.has_default:
                    walk(f.type, f.default)

    def inputs(ins):
        for a in ins:
            if a.has_default:
                walk(a.type, a.default)

    for t in ir.types.values():
        for f in t.fields:
            inputs(f.args)
        inputs(t.input_fields)
    for d in ir.directives.values():
        inputs(d.args)
    return out


def respell(value, strings):
    """Copy of a canonical description (or any nested python value) in which the given strings are replaced by
    their respelling."""
    if isinstance(value, dict):
        return type(value)((k, respell(v, strings)) for k, v in value.items())
    if isinstance(value, (list, tuple)):
        return type(value)(respell(v, strings) for v in value)
    if isinstance(value, str) and value in strings:
        return respelled_numberlike(value)
    return value
