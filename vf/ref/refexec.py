# -*- coding: utf-8 -*-
"""
R-EXEC / R-COLLECT: executable model of the specification's execution algorithm over
the operation IR, the schema IR and a resolver world.

Two library semantics that the property statements adopt are part of the model:
a null in a non-null position stays at that position (one error with that path, no
propagation) and a ResolverError nulls exactly its field.
"""
import collections

from ..gen import schemair as S
from ..gen.world import Obj, message_as_raised, salt_of, serialize_leaf
from . import refcoerce
from .refcoerce import Var


class Abstain(Exception):
    pass


class TypeResolutionFailed(Exception):
    """The type resolver of an abstract type raises the resolver error for this value: the field whose
    value was being completed is nulled and carries the error (library semantics: no partial lists)."""


class Crashed(Exception):
    """The world raises an unexpected exception somewhere in this execution."""


class RefExecutor(object):
    def __init__(self, schema, doc, op, variables, world, introspection=None, root=None):
        self.s, self.doc, self.op, self.vars, self.world = schema, doc, op, variables, world
        self.errors = []          # (path tuple, kind)
        self.calls = []           # (type, field, oid, kwargs) in model order (depth-first, document order)
        self.crashes = []         # paths whose resolver crashes
        self.introspection = introspection
        self.root = root
        self.error_messages = []  # messages of the world's resolver errors, in model order
        self.type_failures = []   # paths of fields nulled because a type resolver raised
        self.top_level_order = []
        self.visited = []         # response paths of every field the algorithm resolves

    # -- CollectFields ------------------------------------------------------
    def directive_if(self, directives, name):
        for dname, args in directives:
            if dname == name:
                v = args["if"]
                if isinstance(v, Var):
                    if v.name not in self.vars:
                        raise Abstain("skip/include variable missing")
                    v = self.vars[v.name]
                return bool(v)
        return None

    def skipped(self, directives):
        sk = self.directive_if(directives, "skip")
        inc = self.directive_if(directives, "include")
        return (sk is True) or (inc is False)

    def applies(self, type_cond, object_type):
        if type_cond is None:
            return True
        return object_type in self.s.possible_types(type_cond)

    def collect(self, object_type, selection, visited=None, grouped=None):
        if visited is None:
            visited = set()
        if grouped is None:
            grouped = collections.OrderedDict()
        for sel in selection:
            if self.skipped(sel.directives):
                continue
            if sel.kind == "field":
                grouped.setdefault(sel.key, []).append(sel)
            elif sel.kind == "spread":
                if sel.name in visited:
                    continue
                visited.add(sel.name)
                frag = self.doc.fragments[sel.name]
                if not self.applies(frag.type_cond, object_type):
                    continue
                self.collect(object_type, frag.selection, visited, grouped)
            else:
                if not self.applies(sel.type_cond, object_type):
                    continue
                self.collect(object_type, sel.selection, visited, grouped)
        return grouped

    # -- execution ------------------------------------------------------------
    def run(self):
        root_type = dict(self.s.roots())[self.op.kind]
        root = self.root if self.root is not None else self.world.root(root_type)
        grouped = self.collect(root_type, self.op.selection)
        data = self.execute_selection(root_type, root, grouped, ())
        return data, self.errors

    def execute_selection(self, object_type, obj, grouped, path):
        out = collections.OrderedDict()
        for key, fields in grouped.items():
            out[key] = self.execute_field(object_type, obj, key, fields, path + (key,))
        return out

    def execute_field(self, object_type, obj, key, fields, path):
        first = fields[0]
        self.visited.append(path)
        if first.name == "__typename":
            return object_type
        st = self.s.types[object_type]
        f = st.field(first.name)
        status, kwargs = refcoerce.coerce_arguments(self.s, f.args, first.args, self.vars)
        if status == "lenient":
            raise Abstain("lenient argument coercion")
        if status == "reject":
            self.errors.append((path, "argument"))
            return None
        self.calls.append((object_type, f.name, obj.oid, kwargs, path))
        out = self.world.outcome(object_type, f.name, obj.oid, salt_of(kwargs))
        if out[0] == "error":
            self.errors.append((path, "resolver"))
            self.error_messages.append(message_as_raised(out[1]))
            return None
        if out[0] == "crash":
            self.crashes.append(path)
            raise Crashed(path)
        n_errors = len(self.errors)
        try:
            return self.complete(f.type, out[1], fields, path)
        except TypeResolutionFailed:
            self.errors.append((path, "resolver"))
            self.error_messages.append("resolver error at type resolution")
            self.type_failures.append(path)
            return None

    def complete(self, t, v, fields, path):
        if t[0] == "nonnull":
            r = self.complete(t[1], v, fields, path)
            if r is None:
                self.errors.append((path, "nonnull"))
            return r
        if v is None:
            return None
        if t[0] == "list":
            return [self.complete(t[1], x, fields, path + (i,)) for i, x in enumerate(v)]
        name = t[1]
        kind = self.s.kind(name)
        if kind in ("scalar", "enum"):
            return serialize_leaf(self.s, name, v)
        assert isinstance(v, Obj), (name, v)
        if kind in ("interface", "union") and self.world.type_resolution_fails(name, v):
            raise TypeResolutionFailed(path)
        runtime = v.type
        merged = []
        for fld in fields:
            if fld.selection:
                merged.extend(fld.selection)
        grouped = self.collect(runtime, merged)
        return self.execute_selection(runtime, v, grouped, path)


def reference_result(schema, doc, op, provided_variables, world, root=None):
    """Returns ("ok", data, errors, executor) | ("reject-variables", reason) | ("abstain", reason)
    | ("crash", path, executor)."""
    status, coerced = refcoerce.coerce_variables(schema, op.variables, provided_variables)
    if status == "lenient":
        return ("abstain", "lenient variable coercion")
    if status == "reject":
        return ("reject-variables", coerced)
    ex = RefExecutor(schema, doc, op, coerced, world, root=root)
    try:
        data, errors = ex.run()
    except Abstain as e:
        return ("abstain", str(e))
    except Crashed as e:
        return ("crash", e.args[0], ex)
    return ("ok", data, errors, ex)


def drop_under_aborted(paths, executor):
    """Errors recorded *below* a field that was nulled because a type resolver raised may or may not be
    reported (they depend on how far the other items had got): both sides are compared without them."""
    aborted = [tuple(p) for p in getattr(executor, "type_failures", [])]
    if not aborted:
        return list(paths)
    return [p for p in paths if not any(len(p) > len(a) and tuple(p[:len(a)]) == a for a in aborted)]


def compare_data(a, b, path=()):
    """Order-sensitive comparison of response data; returns None or (path, a, b)."""
    if isinstance(a, dict) and isinstance(b, dict):
        ka, kb = list(a.keys()), list(b.keys())
        if ka != kb:
            return (path, "keys %r" % (ka,), "keys %r" % (kb,))
        for k in ka:
            r = compare_data(a[k], b[k], path + (k,))
            if r:
                return r
        return None
    if isinstance(a, list) and isinstance(b, list):
        if len(a) != len(b):
            return (path, "len %d" % len(a), "len %d" % len(b))
        for i, (x, y) in enumerate(zip(a, b)):
            r = compare_data(x, y, path + (i,))
            if r:
                return r
        return None
    if type(a) != type(b) or a != b:
        # tuples/lists produced by transparent scalars compare by value
        if isinstance(a, (list, tuple)) and isinstance(b, (list, tuple)) and list(a) == list(b):
            return None
        return (path, a, b)
    return None
