# -*- coding: utf-8 -*-
"""refdepth: nesting depth of an operation IR by the convention of the rule's docstring (its
example measures 4): a selection set of leaf fields has depth 0, otherwise 1 + the depth of the
deepest sub-selection; fragments are traversed at any level, @skip/@include are honoured."""
from .refcoerce import Var


def _flag(directives, name, variables):
    for dname, args in directives:
        if dname == name:
            v = args["if"]
            if isinstance(v, Var):
                v = variables[v.name]
            return bool(v)
    return None


def _skipped(directives, variables):
    return _flag(directives, "skip", variables) is True or _flag(directives, "include", variables) is False


def depth(selection, doc, variables, visiting=()):
    best = 0
    for x in selection:
        if _skipped(x.directives, variables):
            continue
        if x.kind == "field":
            if x.selection is not None:
                best = max(best, 1 + depth(x.selection, doc, variables, visiting))
        elif x.kind == "inline":
            best = max(best, depth(x.selection, doc, variables, visiting))
        else:
            if x.name in visiting:
                continue
            fr = doc.fragments[x.name]
            best = max(best, depth(fr.selection, doc, variables, visiting + (x.name,)))
    return best
