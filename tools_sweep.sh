#!/bin/bash
# usage: tools_sweep.sh <tier> <seed>...   (no evidence written; prints one line per check)
tier=$1; shift
for seed in "$@"; do
  for p in C01 C02 C03 C04 C05 C06 C07 C08 C09 C10 C11 C12 C13 C14 C15 C16 C17 C18 C19 C20; do
    start=$(date +%s)
    out=$(PYTHONPATH=$(dirname $0) /venv/bin/python -m vf.run $p --tier $tier --seed $seed --no-write 2>&1)
    rc=$?
    end=$(date +%s)
    echo "seed=$seed $p rc=$rc $((end-start))s $(echo "$out" | grep -a 'violation key\|INCONCLUSIVE' | head -3 | cut -c1-300 | tr '\n' '|')"
  done
done
