#!/usr/bin/env python3
"""Rebuild /verif/seeded/RESULTS.md from the meta.json files."""
import glob, json, os
rows = []
for f in sorted(glob.glob("/verif/seeded/*/meta.json")):
    m = json.load(open(f))
    name = os.path.basename(os.path.dirname(f))
    first = (m.get("needs_to_manifest") or "").strip().splitlines()
    what = " ".join(l.strip("# ").strip() for l in first[:3])[:220]
    for prop, r in m.get("checks", {}).items():
        rows.append((name, prop, r["verdict"], ", ".join(k.split(" count=")[0] for k in r["keys"][:3]), what, m.get("history", "")))
with open("/verif/seeded/RESULTS.md", "w") as out:
    out.write("# Seeded breaking changes (written by independent sub-agents) and which checks catch them\n\n"
              "Each change was confirmed in a scratch worktree: the repository's 1895 tests pass with it, its demo\n"
              "fails with it and passes without it. `checks` shows the quick-tier check of the property run against the\n"
              "changed tree (`selftest/eval_seeded.py`). `history` notes changes that were first missed and what was\n"
              "strengthened.\n\n| change | check | verdict | violation keys | what it is | history |\n|---|---|---|---|---|---|\n")
    for r in rows:
        out.write("| %s | %s | %s | %s | %s | %s |\n" % tuple(str(x).replace("|", "/") for x in r))
print(len(rows), "rows")
