#!/bin/bash
# usage: eval_pair.sh Cxx [extra eval_seeded args]  -- evaluates variants A and B and prints one line each
p=$1; shift
mkdir -p /tmp/seedlogs
for x in A B; do
  log=/tmp/seedlogs/$p-$x-$$.log
  $(dirname $0)/eval_seeded.py $p $x "$@" > $log 2>&1
  python3 - "$p" "$x" "$log" <<'PY'
import json,sys
p,x,log=sys.argv[1:4]
t=open(log).read()
try:
    m=json.loads(t[t.index('{'):])
    print(p,m.get('variant'),'confirmed=%s'%m.get('confirmed'),'tests_pass=%s'%m.get('repo_tests_pass'),'demo=%s/%s'%(m.get('demo_on_unchanged_tree_exit'),m.get('demo_with_change_exit')),m.get('checks'))
except Exception as e:
    print(p,x,'ERR',t[-400:])
PY
done
