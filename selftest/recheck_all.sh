#!/bin/bash
# Re-run every kept seeded change against the quick tier of its property's check (4 shards), 4 at a time.
# usage: recheck_all.sh [outfile]
out=${1:-/tmp/recheck_all.log}
cd $(dirname $0)/..
: > $out
ls -d seeded/C*/ | while read d; do echo $(basename $d); done | xargs -P 4 -I{} bash -c 'n={}; p=${n%-*}; r=$(./selftest/run_mutant.py seeded/$n/patch.diff $p --shards 4 2>&1 | grep -a "exit=" | head -1); echo "$n $r"' >> $out
sort $out -o $out
grep -c CAUGHT $out
grep -v CAUGHT $out
