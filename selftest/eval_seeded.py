#!/usr/bin/env python3
"""Confirm a sub-agent's breaking change and run the checks against it.
usage: eval_seeded.py <Cxx> <A|B> [--props C01,C02] [--scale X] [--shards N] [--tier quick]
Steps (all in a scratch worktree under /tmp that is removed afterwards):
  1. demo passes on the unchanged tree, 2. patch applies, 3. repository tests pass with it,
  4. demo fails with it, 5. the property's check(s) run against it (VERIF_REPO).
Writes /verif/seeded/<Cxx>-<X>/{patch.diff,demo.py,notes.md,meta.json}."""
import argparse, json, os, shutil, subprocess, sys, tempfile

ap = argparse.ArgumentParser()
ap.add_argument("prop"); ap.add_argument("which")
ap.add_argument("--props", default=None); ap.add_argument("--scale", default=None)
ap.add_argument("--shards", default=None); ap.add_argument("--tier", default="quick")
ap.add_argument("--seed", default="0")
ap.add_argument("--round", type=int, default=1, help="round 2 reads /tmp/seed2 and stores A/B as C/D")
a = ap.parse_args()
src = ("/tmp/seed/%s/out" if a.round == 1 else "/tmp/seed%d/%%s/out" % a.round) % a.prop
label = a.which if a.round == 1 else chr(ord(a.which) + 2 * (a.round - 1))
patch, demo, notes = [os.path.join(src, "%s%s" % (a.which, s)) for s in (".diff", "_demo.py", "_notes.md")]
meta = {"property": a.prop, "variant": label, "round": a.round, "ran": [],
        "repo_head": subprocess.check_output(["git", "-C", "/repo", "rev-parse", "--short", "HEAD"]).decode().strip()}
wt = tempfile.mkdtemp(prefix="vf-seed-", dir="/tmp"); os.rmdir(wt)
subprocess.check_call(["git", "-C", "/repo", "worktree", "add", "--detach", "-q", wt])
env = dict(os.environ, PYTHONDONTWRITEBYTECODE="1", PYTHONPATH=os.path.join(wt, "src"))
def run(cmd, **kw):
    p = subprocess.run(cmd, stdout=subprocess.PIPE, stderr=subprocess.STDOUT, **kw)
    return p.returncode, p.stdout.decode("utf8", "replace")
try:
    rc, out = run(["/venv/bin/python", demo], env=env, cwd=wt)
    meta["demo_on_unchanged_tree_exit"] = rc
    rc_apply, out = run(["git", "-C", wt, "apply", patch])
    meta["patch_applies"] = rc_apply == 0
    if rc_apply != 0:
        print("PATCH DOES NOT APPLY:", out[-300:]); print(json.dumps(meta)); sys.exit(3)
    rc, out = run(["/venv/bin/python", "-m", "pytest", "-q", "-p", "no:cacheprovider", "-q"], env=env, cwd=wt)
    meta["repo_tests"] = out.strip().splitlines()[-1][-80:]
    meta["repo_tests_pass"] = rc == 0
    rc, out = run(["/venv/bin/python", demo], env=env, cwd=wt)
    meta["demo_with_change_exit"] = rc
    results = {}
    for prop in (a.props or a.prop).split(","):
        cmd = ["/venv/bin/python", "-m", "vf.run", prop, "--tier", a.tier, "--no-write", "--seed", a.seed]
        if a.scale: cmd += ["--scale", a.scale]
        if a.shards: cmd += ["--shards", a.shards]
        rc, out = run(cmd, cwd="/verif", env=dict(os.environ, VERIF_REPO=wt, PYTHONPATH="/verif", PYTHONDONTWRITEBYTECODE="1"))
        keys = [l.strip().split(" detail=")[0].replace("violation key=", "") for l in out.splitlines() if "violation key=" in l]
        results[prop] = {"exit": rc, "verdict": "caught" if rc == 1 else "missed" if rc == 0 else "inconclusive", "keys": keys[:6]}
        meta["ran"].append(" ".join(cmd[2:]))
    meta["checks"] = results
finally:
    subprocess.call(["git", "-C", "/repo", "worktree", "remove", "--force", wt]); shutil.rmtree(wt, ignore_errors=True)
valid = meta.get("demo_on_unchanged_tree_exit") == 0 and meta.get("repo_tests_pass") and meta.get("demo_with_change_exit", 0) != 0
meta["confirmed"] = bool(valid)
print(json.dumps(meta, indent=1))
if valid:
    dst = "/verif/seeded/%s-%s" % (a.prop, label)
    os.makedirs(dst, exist_ok=True)
    shutil.copy(patch, os.path.join(dst, "patch.diff")); shutil.copy(demo, os.path.join(dst, "demo.py"))
    if os.path.exists(notes):
        shutil.copy(notes, os.path.join(dst, "notes.md"))
        meta["needs_to_manifest"] = open(notes).read()[:1500]
    json.dump(meta, open(os.path.join(dst, "meta.json"), "w"), indent=1)
