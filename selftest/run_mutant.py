#!/usr/bin/env python3
"""Apply one patch to a scratch worktree of /repo (outside /repo and /verif), optionally run the
repository's own tests there, run the given checks against it (VERIF_REPO), then remove the
worktree. usage: run_mutant.py <patch> <PROP>[,<PROP>...] [--tests] [--scale X] [--shards N] [--seed S]"""
import argparse, os, shutil, subprocess, sys, tempfile

ap = argparse.ArgumentParser()
ap.add_argument("patch")
ap.add_argument("props")
ap.add_argument("--tests", action="store_true")
ap.add_argument("--scale", default=None)
ap.add_argument("--shards", default=None)
ap.add_argument("--seed", default="0")
ap.add_argument("--tier", default="quick")
a = ap.parse_args()
wt = tempfile.mkdtemp(prefix="vf-mut-", dir="/tmp")
os.rmdir(wt)
subprocess.check_call(["git", "-C", "/repo", "worktree", "add", "--detach", "-q", wt])
rc = 0
try:
    p = subprocess.run(["git", "-C", wt, "apply", os.path.abspath(a.patch)])
    if p.returncode != 0:
        print("PATCH DOES NOT APPLY")
        sys.exit(3)
    env = dict(os.environ, PYTHONDONTWRITEBYTECODE="1")
    if a.tests:
        t = subprocess.run(["/venv/bin/python", "-m", "pytest", "-q", "-p", "no:cacheprovider", "-x", "-q"],
                           cwd=wt, env=dict(env, PYTHONPATH=os.path.join(wt, "src")), stdout=subprocess.PIPE, stderr=subprocess.STDOUT)
        print("REPO TESTS:", t.stdout.decode()[-300:].strip().splitlines()[-1])
    for prop in a.props.split(","):
        cmd = ["/venv/bin/python", "-m", "vf.run", prop, "--tier", a.tier, "--no-write", "--seed", a.seed]
        if a.scale:
            cmd += ["--scale", a.scale]
        if a.shards:
            cmd += ["--shards", a.shards]
        r = subprocess.run(cmd, cwd="/verif", env=dict(env, VERIF_REPO=wt, PYTHONPATH="/verif"),
                           stdout=subprocess.PIPE, stderr=subprocess.STDOUT)
        out = r.stdout.decode("utf8", "replace")
        keys = [l.strip()[:260] for l in out.splitlines() if "violation key=" in l or l.startswith("INCONCLUSIVE") or "also inconclusive" in l]
        print("%s exit=%d %s" % (prop, r.returncode, "CAUGHT" if r.returncode == 1 else "MISSED" if r.returncode == 0 else "INCONCLUSIVE"))
        for k in keys[:8]:
            print("    ", k)
        rc = max(rc, 0 if r.returncode == 1 else 1)
finally:
    subprocess.call(["git", "-C", "/repo", "worktree", "remove", "--force", wt])
    shutil.rmtree(wt, ignore_errors=True)
sys.exit(rc)
