#!/usr/bin/env python3
"""Re-validate a kept seeded change after its patch had to be re-based onto a repaired tree.
usage: revalidate.py <name e.g. C09-D> <rebased.diff> [--props C09,C08] [--shards 4]
Repository tests must pass with it, its demo must fail with it (and pass without), the property's quick check must
catch it. On success the patch in /verif/seeded/<name>/ is replaced and meta.json updated."""
import argparse, json, os, shutil, subprocess, sys, tempfile
ap = argparse.ArgumentParser(); ap.add_argument("name"); ap.add_argument("diff"); ap.add_argument("--props"); ap.add_argument("--shards", default="4")
a = ap.parse_args()
d = "/verif/seeded/%s" % a.name
meta = json.load(open(d + "/meta.json"))
props = (a.props or ",".join(meta.get("checks", {}).keys()) or a.name[:3]).split(",")
wt = tempfile.mkdtemp(prefix="vf-rev-", dir="/tmp"); os.rmdir(wt)
subprocess.check_call(["git", "-C", "/repo", "worktree", "add", "--detach", "-q", wt])
env = dict(os.environ, PYTHONDONTWRITEBYTECODE="1", PYTHONPATH=os.path.join(wt, "src"))
def run(cmd, **kw):
    p = subprocess.run(cmd, stdout=subprocess.PIPE, stderr=subprocess.STDOUT, **kw); return p.returncode, p.stdout.decode("utf8", "replace")
out = {"name": a.name}
try:
    out["demo_clean"] = run(["/venv/bin/python", d + "/demo.py"], env=env, cwd=wt)[0]
    rc, o = run(["git", "-C", wt, "apply", os.path.abspath(a.diff)])
    if rc: print(a.name, "DOES NOT APPLY", o[-200:]); sys.exit(3)
    rc, o = run(["/venv/bin/python", "-m", "pytest", "-q", "-p", "no:cacheprovider", "-q"], env=env, cwd=wt)
    out["tests_pass"] = rc == 0
    out["demo_changed"] = run(["/venv/bin/python", d + "/demo.py"], env=env, cwd=wt)[0]
    checks = {}
    for prop in props:
        rc, o = run(["/venv/bin/python", "-m", "vf.run", prop, "--tier", "quick", "--no-write", "--seed", "0", "--shards", a.shards],
                    cwd="/verif", env=dict(os.environ, VERIF_REPO=wt, PYTHONPATH="/verif", PYTHONDONTWRITEBYTECODE="1"))
        keys = [l.strip().split(" detail=")[0].replace("violation key=", "") for l in o.splitlines() if "violation key=" in l]
        checks[prop] = {"exit": rc, "verdict": "caught" if rc == 1 else "missed" if rc == 0 else "inconclusive", "keys": keys[:6]}
    out["checks"] = checks
finally:
    subprocess.call(["git", "-C", "/repo", "worktree", "remove", "--force", wt]); shutil.rmtree(wt, ignore_errors=True)
ok = out["demo_clean"] == 0 and out["tests_pass"] and out["demo_changed"] != 0
out["confirmed"] = ok
print(json.dumps(out))
if ok:
    shutil.copy(a.diff, d + "/patch.diff")
    meta["checks"] = out["checks"]
    meta["rebased_onto"] = subprocess.check_output(["git", "-C", "/repo", "rev-parse", "--short", "HEAD"]).decode().strip()
    json.dump(meta, open(d + "/meta.json", "w"), indent=1)
