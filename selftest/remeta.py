#!/usr/bin/env python3
"""Re-run the check of a kept seeded change after the check was strengthened and update its meta.json.
usage: remeta.py <Cxx-Y> "<history text>" [--props C14] [--shards 4]"""
import argparse, json, os, re, subprocess, sys
ap = argparse.ArgumentParser()
ap.add_argument("name"); ap.add_argument("history"); ap.add_argument("--props", default=None); ap.add_argument("--shards", default="4")
a = ap.parse_args()
d = "/verif/seeded/%s" % a.name
m = json.load(open(d + "/meta.json"))
props = a.props or a.name.split("-")[0]
out = subprocess.run([os.path.dirname(os.path.abspath(__file__)) + "/run_mutant.py", d + "/patch.diff", props, "--shards", a.shards],
                     stdout=subprocess.PIPE, stderr=subprocess.STDOUT).stdout.decode("utf8", "replace")
cur = None
checks = {}
for l in out.splitlines():
    mm = re.match(r"(C\d\d) exit=(\d+) (\w+)", l)
    if mm:
        cur = mm.group(1)
        checks[cur] = {"exit": int(mm.group(2)), "verdict": {"CAUGHT": "caught", "MISSED": "missed"}.get(mm.group(3), "inconclusive"), "keys": []}
    elif "violation key=" in l and cur:
        checks[cur]["keys"].append(l.strip().split(" detail=")[0].replace("violation key=", ""))
for c in checks.values():
    c["keys"] = c["keys"][:6]
m["checks"] = checks
m["history"] = a.history
json.dump(m, open(d + "/meta.json", "w"), indent=1)
print(a.name, {k: (v["verdict"], v["keys"][:2]) for k, v in checks.items()})
