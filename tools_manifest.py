#!/usr/bin/env python3
"""Regenerates MANIFEST.json from the table below (keeps it valid at all times)."""
import json, os, subprocess

HERE = os.path.dirname(os.path.abspath(__file__))
PY = "/venv/bin/python"

CHECKS = {
    "C01": dict(
        technique="runtime monitor on parse/parse_value/parse_type + independent executable grammar model (R-LANG) as differential oracle over generated, mutated, truncated and small-scope-enumerated texts",
        text="Every observed call of the three parse entry points is decided by an independent June-2018 grammar recogniser; accept/reject, exception class, error position and renderability are checked on each execution. Exploration level: held on the texts produced (hundreds of thousands per thorough run), never a proof over all strings.",
        note="Trusts R-LANG (vf/ref/reflang.py, cross-validated on the repository fixtures) and the documented deviations listed in DESIGN.md 3.1.",
        design="4/C01"),
    "C02": dict(
        technique="runtime monitor comparing Node.to_dict() of every accepted parse with the R-LANG tree (kinds, order, decoded values, spans), re-parse of spanned text, contract on parse_block_string against the spec algorithm",
        text="Tree shape, decoded literal values and spans of every accepted text are compared with an independent model; spanned text is re-parsed through the library; every parse_block_string call is checked against BlockStringValue().",
        note="Trusts R-LANG's tree construction; Document span follows the library's SOF..EOF convention.",
        design="4/C02"),
    "C03": dict(
        technique="runtime monitor on ASTPrinter/print_ast: metamorphic round trip parse -> print -> parse -> print observed on every parser-accepted text of the workload, for several indent settings",
        text="For each accepted text the monitor checks that printing does not raise, is deterministic, re-parses under the same flags to an equal tree (positions ignored) and re-prints identically. Exploration over generated documents with hostile string contents; held on the cases produced.",
        note="Tree equality is to_dict() without loc; descriptions are compared by value (the printer documents block form). Member descriptions are a listed known finding and removed from both sides.",
        design="4/C03"),
    "C18": dict(
        technique="recording visitors (plain, chained, generated DispatchingVisitor subclass) produce an event log that an offline checker compares with an independent source-ordered tree walk; edits are compared with the same edit applied directly to a second parse",
        text="Exactly-once, balanced nesting, sibling order, no-op identity, locality of delete/replace/skip and chain ordering are decided on the event log and result tree of every generated document; ast_transforms visitors are compared with direct edits. Exploration; 13 mechanisms are listed known findings pinned by the repository's literal event lists.",
        note="Source order = order of loc start offsets; node identity by object id within one parse, by structural path across parses.",
        design="4/C18"),
    "C04": dict(
        technique="runtime monitor on graphql_blocking / process_graphql_query: every response of seeded request histories on generated schemas and resolver worlds is compared order-sensitively with an independent reference executor (R-EXEC); re-issued requests must reproduce",
        text="Response data (key order, aliases, merged keys, fragments on abstract types, directives, leaf serialisation) and the multiset of error paths of every observed execution are decided by an executable model of the specification's execution algorithm driven by the same resolver world; history independence is checked by re-issuing earlier requests on the same Schema object.",
        note="Trusts R-EXEC, R-COLLECT and R-COERCE (vf/ref) and the generators' validity-by-construction; schemas are code-built; errors compared by path multiset and field node.",
        design="4/C04"),
    "C07": dict(
        technique="spy resolvers record the keyword arguments of every invocation; a runtime monitor compares them with the input-coercion model R-COERCE, checks type conformance, absence of invocations for inputs the model rejects, and equality of the inline and variable delivery routes; direct calls to coerce_value / value_from_ast are decided by the same model",
        text="Every resolver invocation observed under generated argument plans (omitted / inline / variable / nested variable x valid / null / mutated) is checked for exact equality with the specification's coercion result and for conformance to the declared types; rejected inputs must not reach a resolver.",
        note="Trusts R-COERCE; lexical leniency of the built-in scalars (bool(x), str(x), int('3')) is classed lenient and never flagged.",
        design="4/C07"),
    "C08": dict(
        technique="schedule controller (parking executor substituted for ThreadPoolRuntime._inner and for the asyncio loop's default executor, gate futures for coroutine resolvers) enumerates / samples completion orders from one thread; each outcome is compared with the reference executor; monitored Future subclass in runtime/threadpool.py; stress mode with a real 8-thread pool and sys.monitoring LINE yield injection",
        text="For each request six configurations are run; in the deferred ones every completion order of the in-flight resolver tasks is explored depth-first up to a bound (then sampled). Data and error paths must equal the reference in every schedule, unexpected resolver exceptions must surface as the overall failure, and a result that is still pending when no task is left is a violation (liveness restated as progress at quiescence).",
        note="Schedules are sequences of single task completions; intra-statement interleavings that CPython 3.12 cannot produce are out of reach. Distinct schedules per configuration are counted in the evidence.",
        design="4/C08, 3.4"),
    "C09": dict(
        technique="resolver spies and a recording instrumentation write start/finish events with a logical clock to a thread-safe log while mutations run under the schedule controller (all six configurations); an offline checker verifies pairwise serial order of top-level fields and compares the response with the reference executor",
        text="For every explored completion order of nested deferred resolvers the first event under a later top-level mutation field must follow the last event under every earlier one; all top-level fields run even after a ResolverError; key order and data equal the reference.",
        note="Event order is a logical clock taken under a lock at the hook / resolver boundary; schedules as in C08.",
        design="4/C09"),
    "C16": dict(
        technique="recording instrumentations (1-3 stacked), recording middlewares (0-3) and resolver spies write to one thread-safe event log under the schedule controller; offline checkers decide the stage grammar, field exactly-once pairing against the set of fields the reference executor resolves, middleware traversal order and stack order",
        text="Every request outcome class (syntax, validation, variable, operation-name errors, success, partial failure) is observed under six configurations and explored schedules; the recorded log must satisfy the pairing / nesting / exactly-once specification.",
        note="Resolved fields = response paths visited by R-EXEC; crashing resolvers are outside this property (C08).",
        design="4/C16"),
    "C10": dict(
        technique="runtime monitor on the GraphQLResult of every entry-point call (result_mon): strict-JSON serialisation, response-format schema, locations inside the submitted text, data absent after parse/validation failure, extensions pass-through, null/error matching against the reference executor",
        text="Requests of every failure stage (truncations, mutants, invalid documents, bad variable payloads, operation-name variants, resolver errors, nulls in non-null positions, non-finite floats) are issued under four configurations; no call may raise and every response must be well-formed.",
        note="The misspelt 'columne' key of syntax-error locations is a listed known finding (pinned by tests/test_graphql.py).",
        design="4/C10"),
    "C05": dict(
        technique="runtime monitor on validate_ast (never raises) over valid, rule-breaking, adversarial and text-mutated documents; documents reported valid are executed with a wrapper on Executor.resolve_field (ambiguity monitor: merged nodes denote one field with equal arguments) and a type-shape walk of the response, plus comparison with the reference executor when the IR is known",
        text="Connects the two subsystems on every observed document: validator says yes => execution raises nothing and the data has the shape determined by selection sets and schema types; validator must terminate without raising on every parseable document produced.",
        note="Worlds return values of the declared types (no nulls in non-null positions) as the statement requires; variables are fitted to the declared variable types.",
        design="4/C05"),
    "C06": dict(
        technique="differential and metamorphic monitor on validate_ast: valid-by-construction documents must validate, 28 labelled single-rule violations must be rejected with an error from the labelled rule class (errors read per rule class through the library's own TypeInfoVisitor/ChainedVisitor), and verdict plus attribution must be invariant under permutation / renaming / trivia transforms",
        text="Each observed validation of a (base, variant) family is decided against the construction label; verdict flips under validity-preserving transforms are violations with both documents as witness.",
        note="Trusts the generator's validity-by-construction (type-directed, response keys derived from field+arguments) and the labelled operators; extra errors from other rules on invalid documents are ignored.",
        design="4/C06"),
    "C19": dict(
        technique="differential monitor on MaxDepthValidationRule: for every generated document, limit and operation-name filter the verdict is compared with a reference depth computed on the operation IR (refdepth); metamorphic fragment-wrapped copies must not measure shallower",
        text="Every observed rule call (direct and through validate_ast) is decided by the reference depth: error exactly when depth > limit, nothing and no exception otherwise (incl. flat operations), filter restricted to the named operation.",
        note="Depth convention from the rule's docstring (its example measures 4). Boolean directive variables are always supplied.",
        design="4/C19"),
    "C17": dict(
        technique="runtime monitor on the response stream of py_gql.execution.subscribe under the asyncio runtime: counting event sources (async generators and __anext__ classes with injected await points), per-event comparison with the reference executor run on that event as root, refusal cases with consumed-event counters",
        text="Every consumed stream is checked for length, order and termination against its source and for per-event isolation of data and errors; the four refusal classes must raise the documented exception before any event is consumed.",
        note="Sequential async-for consumption; events are root objects of the subscription type whose identity determines the world's outcomes, so a result mapped to the wrong event is distinguishable.",
        design="4/C17"),
    "C11": dict(
        technique="runtime monitor on build_schema: the canonical structural description of every built schema (canon) is compared with the description of the generating schema IR (members in document order, wrappers, R-COERCE defaults, descriptions, deprecations, directives, roots) across random extension splits and definition shuffles; closure invariant asserted on every result; labelled invalid documents must raise only schema/SDL errors",
        text="Each observed build is decided against the IR it was rendered from; order independence follows from comparing every shuffle with the same expectation; 35 labelled invalid document classes check the exception discipline.",
        note="Two mechanisms are listed known findings (defaults coerced before extensions are merged; defaults nesting a literal of their own input type).",
        design="4/C11"),
    "C12": dict(
        technique="runtime monitor on Schema.to_string over random call histories: every output is parsed, rebuilt with build_schema and compared (canon) with the generating IR, re-printed, compared byte-wise with every other output of the same (schema, options) key in the process and with the same call made first in a fresh subprocess",
        text="Round trip and purity are decided per observed call; histories interleave several schemas and option sets and repeat keys so that state leaking between calls becomes visible.",
        note="Descriptions restricted to lines the printer does not re-wrap (statement); empty description = no description.",
        design="4/C12"),
    "C15": dict(
        technique="differential monitor on introspection answers: the data returned for introspection_query() and focused __type queries under four configurations is compared with a rendering of the schema IR (R-INTROSPECT); every reported defaultValue is parsed and coerced back through R-COERCE; disable_introspection runs are checked for leaks and for undisturbed ordinary fields",
        text="Each observed introspection answer is decided against the generating IR: kinds, members in order, interfaces / possible types as sets, directives, roots, deprecation visibility and default values as GraphQL syntax.",
        note="String defaults with special characters are a listed known finding (format pinned by the repository's test).",
        design="4/C15"),
    "C13": dict(
        technique="runtime monitor on validate_schema / Schema.validate: generated valid schemas (several type orderings, benign covariant implementations and permissive resolvers) must pass; 36 labelled violation operators on fresh uniquely named elements, singly and combined, must all be named in the raised SchemaValidationError; resolver registration histories compare the cached verdict with a fresh validation at every step",
        text="Each observed validation is decided by construction labels: no false rejection, every injected violation reported (needle = unique element name), same verdict for every ordering, cache invalidated after resolver changes.",
        note="A violation counts as reported when a message contains the unique name of the injected element.",
        design="4/C13"),
    "C14": dict(
        technique="invariant at quiescent points: after every clone / transform_schema / extend_schema / fix_type_references call in random operation sequences a monitor asserts the closure invariant on result, intermediate and source schemas, compares canonical description and identity map (same resolver objects) with the expectation computed on the schema IR, checks hidden names against introspection and validation, and compares the source with its initial snapshot (description, identity map, printed SDL, sample query result)",
        text="Closure, preservation of untouched attributes and non-interference with the source are decided after each observed operation of sequences applied repeatedly to the same source and chained on results.",
        note="Expected visibility results follow the transform's docstring; operations that would yield an invalid schema may be refused with a schema error.",
        design="4/C14"),
    "C20": dict(
        technique="runtime monitor on diff_schema over generated (schema, edited schema) pairs: change multisets are checked for naming every elementary edit, for soundness of 'no breaking change' against an independent variance model and by re-validating operations that were valid on the old schema, for emptiness on equal / reordered pairs, and for equality across PYTHONHASHSEED values in subprocesses and across type orderings",
        text="Each observed diff is decided by the edit labels and by refvariance (covariant outputs, contravariant inputs through lists, removals, new required inputs); independence from hash ordering is observed by re-running the same seeded pairs under other hash seeds.",
        note="Two mechanisms are listed known findings (compatible retypings are not reported at all; a non-null input losing its default is only DANGEROUS).",
        design="4/C20"),
}

PENDING_REASON = "not claimed"


def main():
    props = [json.loads(l)["id"] for l in open(os.path.join(HERE, "properties.jsonl"))]
    try:
        repo_commits = subprocess.check_output(
            ["git", "-C", "/repo", "log", "--format=%h %s", "--grep=^hook:"], text=True).split("\n")
    except Exception:
        repo_commits = []
    checks = []
    for pid in props:
        if pid not in CHECKS:
            continue
        c = CHECKS[pid]
        base = "PYTHONPATH=/verif %s -m vf.run %s" % (PY, pid)
        checks.append({
            "property_id": pid,
            "quick_cmd": base + " --tier quick",
            "thorough_cmd": base + " --tier thorough",
            "evidence_file": "/verif/evidence/%s.json" % pid,
            "replay_cmd_template": base + " --replay {path}",
            "engine": "vf",
            "level_claimed": {"category": "exploration", "text": c["text"], "design_ref": "DESIGN.md section " + c["design"]},
            "level_note": c["note"],
            "technique": c["technique"],
        })
    manifest = {
        "version": 1,
        "setup_cmd": "mkdir -p /verif/evidence /verif/replay && /venv/bin/python -c 'import sys; sys.path.insert(0, \"/verif\"); import vf.run'",
        "hooks": {
            "guard": "PY_GQL_VERIF",
            "enable": "no source hooks are needed: every observation point is reachable from outside (public entry points, Instrumentation, middlewares, resolvers, replaceable ThreadPoolRuntime._inner, sys.monitoring); checks import /repo/src from the working tree in a fresh interpreter",
            "baseline_off_cmd": "cd /repo && /venv/bin/python -m pytest -ra -q -p no:cacheprovider --timeout=900 --continue-on-collection-errors",
            "source_commits": [],
            "add_only": True,
        },
        "engines": [{
            "name": "vf",
            "path": "/verif/vf",
            "serves_properties": sorted(CHECKS),
            "kind_free_text": "runtime monitoring: seeded hostile workloads drive the real library; monitors at the public boundary compare each observed execution with small executable reference models, check recorded event logs offline and assert structural invariants at quiescent points",
        }],
        "checks": checks,
        "notes": "Known findings: /verif/known_findings.json (keyed by mechanism). Exit codes: 0 held, 1 violation, 2 inconclusive.",
        "not_applicable": [{"property_id": p, "reason": PENDING_REASON} for p in props if p not in CHECKS],
    }
    with open(os.path.join(HERE, "MANIFEST.json"), "w") as f:
        json.dump(manifest, f, indent=1)
    print("MANIFEST.json: %d checks, %d not claimed" % (len(checks), len(manifest["not_applicable"])))


if __name__ == "__main__":
    main()
